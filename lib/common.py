"""Shared plumbing of the zerokit verification framework: building the harness from /repo's
current tree, running TLC (model checking and trace judging), known findings, evidence."""
import json
import os
import re
import shutil
import subprocess
import sys
import time

VERIF = os.path.dirname(os.path.dirname(os.path.abspath(__file__)))
SPEC = os.path.join(VERIF, "spec")
HARNESS = os.path.join(VERIF, "harness")
WORK = os.environ.get("VERIF_WORK") or os.path.join(VERIF, "work")          # overridable: parallel sweeps over scratch copies
EVID = os.environ.get("VERIF_EVID") or os.path.join(VERIF, "evidence")     # (the registered commands never set these)
REPLAYS = os.path.join(EVID, "replays")
REPO = os.environ.get("VERIF_REPO", "/repo")      # the tree under verification (a snapshot of it for background sweeps)

TOOL_ERROR = 2


class ToolError(Exception):
    pass


def seed():
    try:
        return int(os.environ.get("VERIF_SEED", "1"))
    except ValueError:
        return 1


def workdir(name):
    p = os.path.join(WORK, name)
    shutil.rmtree(p, ignore_errors=True)
    os.makedirs(p, exist_ok=True)
    return p


def run(cmd, cwd=None, env=None, timeout=None, check=False):
    e = dict(os.environ)
    if env:
        e.update(env)
    if "tlc" in cmd and "JAVA_TOOL_OPTIONS" not in e:
        e["JAVA_TOOL_OPTIONS"] = "-Xss512m"      # TLC's recursive evaluation crawls with the default thread stack
    try:
        p = subprocess.run(cmd, cwd=cwd, env=e, timeout=timeout, stdout=subprocess.PIPE,
                           stderr=subprocess.STDOUT, text=True, errors="replace")
    except subprocess.TimeoutExpired as ex:
        raise ToolError(f"timeout after {timeout}s: {' '.join(cmd)[:200]}\n{(ex.stdout or '')[-2000:]}")
    if check and p.returncode != 0:
        raise ToolError(f"command failed ({p.returncode}): {' '.join(cmd)[:300]}\n{p.stdout[-4000:]}")
    return p.returncode, p.stdout


# ------------------------------------------------------------------ harness build
FEATURES = {
    "default": [],
    "optimal": ["--no-default-features"],
    "full": ["--features", "fullmerkletree"],
    "arkzkey": ["--features", "arkzkey"],
    "stateless": ["--no-default-features", "--features", "stateless"],
}


def build_harness(config="default", allow_fail=False):
    """cargo build of the harness against /repo's working tree (hooks on via .cargo/config.toml).
    Returns the path of the binary copy for this configuration, or None if allow_fail and the build failed."""
    os.makedirs(os.path.join(WORK, "bin"), exist_ok=True)
    global HARNESS
    if REPO != "/repo" and not HARNESS.startswith(WORK):
        # a copy of the harness whose path dependencies point at the other tree (own target directory)
        alt = os.path.join(WORK, "harness-alt")
        os.makedirs(alt, exist_ok=True)
        for item in ("src", ".cargo"):
            shutil.rmtree(os.path.join(alt, item), ignore_errors=True)
            shutil.copytree(os.path.join(HARNESS, item), os.path.join(alt, item))
        with open(os.path.join(HARNESS, "Cargo.toml")) as f:
            toml = f.read().replace('"/repo/', '"' + REPO.rstrip("/") + "/")
        with open(os.path.join(alt, "Cargo.toml"), "w") as f:
            f.write(toml)
        HARNESS = alt
    lock = os.path.join(HARNESS, "Cargo.lock")
    if not os.path.exists(lock):
        shutil.copy(os.path.join(REPO, "Cargo.lock"), lock)
    cmd = ["cargo", "build", "--offline"] + FEATURES[config]
    rc, out = run(cmd, cwd=HARNESS, env={"CARGO_NET_OFFLINE": "true"}, timeout=1800)
    if rc != 0:
        if allow_fail:
            return None, out
        raise BuildError(out)
    src = os.path.join(HARNESS, "target", "debug", "zkexec")
    dst = os.path.join(WORK, "bin", f"zkexec-{config}")
    tmp = dst + f".{os.getpid()}.tmp"
    shutil.copy2(src, tmp)
    os.replace(tmp, dst)          # atomic; safe while an older copy is still executing
    return dst, out


class BuildError(Exception):
    pass


# ------------------------------------------------------------------ TLC
JAVA_JUDGE = "-Xss1g -Dtlc2.tool.queue.IStateQueue=StateDeque"


def tlc_mc(module, cfg, name, workers=8, timeout=1500, extra=None, env=None, coverage=True):
    """Model-check spec/<module>.tla with spec/<cfg>. Returns dict(states, distinct, ok, out, actions)."""
    meta = os.path.join(WORK, "tlc", name)
    shutil.rmtree(meta, ignore_errors=True)
    os.makedirs(meta, exist_ok=True)
    cmd = ["timeout", str(timeout), "tlc", "-workers", str(workers), "-metadir", meta, "-cleanup",
           "-noGenerateSpecTE", "-config", cfg]
    if coverage:
        cmd += ["-coverage", "1"]
    if extra:
        cmd += extra
    cmd += [module + ".tla"]
    e = {"JAVA_TOOL_OPTIONS": "-Xss512m"}
    if env:
        e.update(env)
    t0 = time.time()
    rc, out = run(cmd, cwd=SPEC, env=e, timeout=timeout + 60)
    shutil.rmtree(meta, ignore_errors=True)
    res = {"rc": rc, "out": out, "wall": time.time() - t0}
    m = re.search(r"(\d+) states generated, (\d+) distinct states found", out)
    if m:
        res["generated"] = int(m.group(1))
        res["distinct"] = int(m.group(2))
    res["violated"] = bool(re.search(r"Error: Invariant .* is violated|Error: Action property .* is violated|"
                                     r"Temporal properties were violated|Error: Deadlock reached", out))
    res["finished"] = "Model checking completed. No error has been found" in out
    # per-action coverage: "<Name line .. of module M>: distinct:generated"
    acts = {}
    for m in re.finditer(r"^<(\w+) line \d+, col \d+ to line \d+, col \d+ of module (\w+)(?: \([\d ]+\))?>: (\d+):(\d+)", out, re.M):
        acts[m.group(1)] = acts.get(m.group(1), 0) + int(m.group(4))
    res["actions"] = acts
    return res


def require_mc_ok(res, what, must_take=None):
    if res.get("violated"):
        raise SpecViolation(what, res["out"])
    if not res.get("finished"):
        raise ToolError(f"TLC did not finish for {what}:\n{res['out'][-3000:]}")
    if must_take:
        never = [a for a in must_take if res["actions"].get(a, 0) == 0]
        if never:
            raise ToolError(f"vacuity: actions never taken in {what}: {never}")


class SpecViolation(Exception):
    def __init__(self, what, out):
        super().__init__(what)
        self.what = what
        self.out = out


def tlc_judge(module, cfg, env, name, timeout=900, xmx="4g"):
    """Run a trace judge. Returns dict(consumed, dev=[lines], kf=[(name,line)], out, accepted, error)."""
    meta = os.path.join(WORK, "tlc", name)
    shutil.rmtree(meta, ignore_errors=True)
    os.makedirs(meta, exist_ok=True)
    cmd = ["timeout", str(timeout), "tlc", "-workers", "1", "-metadir", meta, "-cleanup",
           "-noGenerateSpecTE", "-config", cfg, module + ".tla"]
    e = {"JAVA_TOOL_OPTIONS": f"{JAVA_JUDGE} -Xmx{xmx}"}
    e.update(env)
    t0 = time.time()
    rc, out = run(cmd, cwd=SPEC, env=e, timeout=timeout + 60)
    shutil.rmtree(meta, ignore_errors=True)
    res = {"rc": rc, "out": out, "wall": time.time() - t0}
    # TLC pretty-prints long tuples over several lines: match across whitespace
    res["dev"] = [int(m.group(1)) for m in re.finditer(r'<<\s*"DEV",\s*(\d+)\s*>>', out)]
    res["why"] = {int(m.group(1)): " ".join(m.group(2).split())[:500]
                  for m in re.finditer(r'<<\s*"WHY",\s*(\d+),(.*?)(?=\n<<|\nModel checking|\nError|\Z)', out, re.S)}
    res["kf"] = [(m.group(1), int(m.group(2))) for m in re.finditer(r'<<\s*"KF",\s*"([^"]+)",\s*(\d+)\s*>>', out)]
    m = re.search(r"The depth of the complete state graph search is (\d+)", out)
    res["depth"] = int(m.group(1)) if m else None
    m = re.search(r'^<<"REJECT", (\d+)', out, re.M)
    res["reject_at"] = int(m.group(1)) if m else None
    res["accepted"] = ("Model checking completed. No error has been found" in out) and res["reject_at"] is None
    # anything else (parse error, Assert, Java exception) is a tool error, never a verdict
    res["tool_error"] = None
    if not res["accepted"] and res["reject_at"] is None:
        res["tool_error"] = out[-3000:]
    return res


# ------------------------------------------------------------------ known findings
def known_findings():
    p = os.path.join(VERIF, "known_findings.json")
    if not os.path.exists(p):
        return {"findings": [], "fixed": []}
    with open(p) as f:
        return json.load(f)


def kf_for(prop):
    """names of the open (not fixed) findings registered for this property"""
    return [f for f in known_findings().get("findings", []) if prop in f.get("properties", [f.get("property")])]


# ------------------------------------------------------------------ results
class Outcome:
    """Collects what a check run covered and found; writes evidence; decides the exit code."""

    def __init__(self, prop, tier, level):
        self.prop = prop
        self.tier = tier
        self.level = level
        self.t0 = time.time()
        self.cov = {"samples": []}
        self.assumptions = []
        self.violations = []      # (description, replay_path)
        import glob
        for f in glob.glob(os.path.join(REPLAYS, f"{prop}-*.json")):
            os.remove(f)             # replay files of earlier runs of this check are stale
        self.kf_lines = []
        self.notes = []

    def add(self, **kw):
        for k, v in kw.items():
            if isinstance(v, int) and not isinstance(v, bool) and isinstance(self.cov.get(k), int):
                self.cov[k] += v
            else:
                self.cov[k] = v

    def sample(self, s, limit=6):
        if len(self.cov["samples"]) < limit:
            self.cov["samples"].append(s)

    def violation(self, desc, replay_obj):
        os.makedirs(REPLAYS, exist_ok=True)
        n = len(self.violations) + 1
        path = os.path.join(REPLAYS, f"{self.prop}-{seed()}-{n}.json")
        with open(path, "w") as f:
            json.dump({"property": self.prop, "description": desc, "replay": replay_obj}, f)
        self.violations.append((desc, path))

    def known(self, name, what):
        line = f"KNOWN-FINDING: property={self.prop} {name}: {what}"
        if line not in self.kf_lines:
            self.kf_lines.append(line)

    def finish(self):
        ev = {
            "property_id": self.prop,
            "tier": self.tier,
            "seed": seed(),
            "level": self.level,
            "coverage": self.cov,
            "assumptions": self.assumptions,
            "wall_s": round(time.time() - self.t0, 2),
            "violations": len(self.violations),
        }
        if self.kf_lines:
            ev["coverage"]["known_findings_reported"] = self.kf_lines
        if self.notes:
            ev["coverage"]["notes"] = self.notes
        os.makedirs(EVID, exist_ok=True)
        with open(os.path.join(EVID, f"{self.prop}.json"), "w") as f:
            json.dump(ev, f, indent=1)
        for l in self.kf_lines:
            print(l)
        for desc, path in self.violations[:20]:
            print(f"VIOLATION property={self.prop} replay={path}")
            print(f"  {desc}"[:600])
        if len(self.violations) > 20:
            print(f"  ... {len(self.violations) - 20} more violations (see {REPLAYS})")
        print(f"[{self.prop}] {self.tier}: violations={len(self.violations)} known-findings={len(self.kf_lines)} "
              f"wall={ev['wall_s']}s")
        return 1 if self.violations else 0


def read_ndjson(path):
    out = []
    with open(path) as f:
        for line in f:
            line = line.strip()
            if line:
                out.append(json.loads(line))
    return out


def write_ndjson(path, rows):
    with open(path, "w") as f:
        for r in rows:
            f.write(json.dumps(r, separators=(",", ":")))
            f.write("\n")


# ------------------------------------------------------------------ BigNat accelerator
def bignat_accelerator(wd, out=None, rnd_seed=1):
    """compile the optional Java override of BigNat!Mul (if a compiler is there) and check it against the TLA+
    definition on boundary + random operands; without javac the pure TLA+ definition is used (slower, same meaning)"""
    import random
    cls = os.path.join(SPEC, "BigNat.class")
    src = os.path.join(SPEC, "BigNat.java")
    if (not os.path.exists(cls)) or os.path.getmtime(cls) < os.path.getmtime(src):
        rc, o = run(["javac", "-cp", "/opt/veriftools/tla/tla2tools.jar", "-d", SPEC, src], timeout=300)
        if rc != 0:
            if os.path.exists(cls):
                os.remove(cls)
            if out is not None:
                out.notes.append("BigNat accelerator not built (javac failed): pure TLA+ arithmetic is used")
            return False
    r = random.Random(rnd_seed)
    pairs = []
    edge = [[], [1], [255], [0, 1], [255] * 32, [255] * 33, [1] + [0] * 31 + [1]]
    for a in edge:
        for b in edge:
            pairs.append({"a": a, "b": b})
    for _ in range(150):
        pairs.append({"a": [r.randrange(256) for _ in range(r.choice([1, 8, 31, 32, 33, 64]))][:-1] + [r.randrange(1, 256)],
                      "b": [r.randrange(256) for _ in range(r.choice([1, 8, 31, 32, 33, 64]))][:-1] + [r.randrange(1, 256)]})
    pp = os.path.join(wd, "bignat_pairs.ndjson")
    write_ndjson(pp, pairs)
    rc, o = run(["timeout", "600", "tlc", "-workers", "1", "-metadir", os.path.join(wd, "bn"), "-cleanup", "-config", "BigNatCheck.cfg", "BigNatCheck.tla"],
                cwd=SPEC, env={"PAIRS": pp, "JAVA_TOOL_OPTIONS": "-Xss512m"}, timeout=700)
    if "BIGNAT-SELFCHECK" not in o or "Model checking completed. No error has been found" not in o:
        raise ToolError("BigNat accelerator disagrees with its TLA+ definition (or the self-check failed):\n" + o[-2000:])
    if out is not None:
        out.notes.append(f"BigNat!Mul override (java.math.BigInteger) active; equal to its TLA+ definition on {len(pairs)} boundary/random operand pairs of this run")
    return True
