"""./check <id> --replay <file>: re-execute the recorded failing scenario on /repo's current tree and judge it again.
Scenario-based replays (tree, storage, proto, ffi) run exactly the recorded calls; for the sampled function-level
checks the recorded event documents the failing input and the replay re-runs the check with the recorded seed."""
import json
import os
import subprocess
import sys

from common import Outcome, ToolError, build_harness, kf_for, read_ndjson, workdir


def main(prop, path):
    with open(path) as f:
        rp = json.load(f)
    r = rp.get("replay", {})
    kind = r.get("kind")
    print(f"[replay] {prop}: {rp.get('description', '')[:400]}")
    wd = workdir(f"replay-{prop}")
    out = Outcome(prop + "-replay", "quick", "model_checking")
    kfs = [f["name"] for f in kf_for(prop)]
    try:
        binary, _ = build_harness("default")
        if kind == "tree":
            import tree
            sc = r["scenario"]
            tgt = [r["target"]]
            tp, tb = tree.execute(binary, wd, "replay", sc, tgt, tamper_every=(1 if prop == "C07" else 0))
            rows = read_ndjson(tp)
            res = tree.judge(prop, wd, "replay", tp, tb, kfs)
        elif kind == "storage":
            import storage
            sc = r["scenario"]
            tp, tb = storage.execute(binary, wd, "replay", sc)
            rows = read_ndjson(tp)
            res = storage.judge(prop, wd, "replay", tp, tb, kfs)
        elif kind == "proto":
            import proto
            sc = r["scenario"]
            tp, tb = proto.execute(binary, wd, "replay", sc)
            rows = read_ndjson(tp)
            res = proto.judge(prop, wd, "replay", tp, tb, kfs)
        elif kind == "hook":
            import hook
            rows, res = hook.replay(prop, wd, r, binary, kfs)
        elif kind == "relay":
            import relay
            rows, res = relay.replay(prop, wd, r, binary)
        else:
            # sampled function-level checks: the same seed regenerates the same inputs
            seed = os.path.basename(path).split("-")[1] if "-" in os.path.basename(path) else "1"
            env = dict(os.environ, VERIF_SEED=seed)
            here = os.path.dirname(os.path.dirname(os.path.abspath(__file__)))
            return subprocess.call([os.path.join(here, "check"), prop, "--tier", "quick"], env=env)
    except ToolError as e:
        print(f"[replay] tool error: {e}")
        return 2
    if res.get("tool_error"):
        print("[replay] tool error:\n" + res["tool_error"])
        return 2
    if res["dev"]:
        for line in res["dev"]:
            ev = rows[line - 1]
            brief = {k: v for k, v in ev.items() if k not in ("obs", "bytes", "msg")}
            print(f"VIOLATION property={prop} replay={path}")
            print(f"  still deviates at recorded call {json.dumps(brief)[:400]}: {res['why'].get(line, '')}"[:900])
        return 1
    print(f"[replay] the recorded scenario is accepted on the current tree ({len(rows)} calls judged"
          + (f", known findings used: {sorted(set(n for n, _ in res['kf']))}" if res["kf"] else "") + ")")
    return 0
