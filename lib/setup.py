"""./check --setup : build the harness (offline, from files on disk) and parse every TLA+ module."""
import glob
import os
import sys

from common import SPEC, build_harness, run, BuildError


def main():
    try:
        b, _ = build_harness("default")
        print("harness built:", b)
    except BuildError as e:
        print("harness build failed:\n" + str(e)[-4000:])
        return 2
    import common
    try:
        common.bignat_accelerator(common.workdir("setup"))
        print("BigNat accelerator ready")
    except Exception as e:  # noqa
        print("BigNat accelerator unavailable:", e)
    bad = 0
    for f in sorted(glob.glob(os.path.join(SPEC, "*.tla"))):
        rc, out = run(["tla-sany", os.path.basename(f)], cwd=SPEC, timeout=300)
        if rc != 0 or "Semantic errors" in out or "***Parse Error***" in out or "Fatal errors" in out:
            print("SANY rejects", f)
            print(out[-1500:])
            bad += 1
    print("setup done;", "all modules parse" if not bad else f"{bad} modules rejected")
    return 2 if bad else 0
