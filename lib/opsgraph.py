"""C19 (operator semantics) and C20 (arbitrary well-formed graphs): CircomOps/Graph specs checked by TLC for a small
prime; recorded evaluations judged by TLC over 254-bit arithmetic in TLA+ (BigNat), in parallel chunks."""
import json
import os
import re
from concurrent.futures import ThreadPoolExecutor

from common import (SPEC, ToolError, build_harness, read_ndjson, run, seed, tlc_judge, workdir, write_ndjson)

RELATIONAL = {"Mul", "Div", "Idiv", "Mod", "Pow"}


def small_prime_mc(out, wd, module, cfgs, tag):
    for cfg in cfgs:
        rc, o = run(["timeout", "3000", "tlc", "-workers", "8", "-metadir", os.path.join(wd, "mc"), "-cleanup", "-config", cfg, module + ".tla"],
                    cwd=SPEC, timeout=3100)
        m = re.search(r'"%s",\s*(\d+),\s*(\d+)' % tag, o)
        if "Model checking completed. No error has been found" not in o or not m:
            raise ToolError(f"{module} small-prime check failed ({cfg}):\n" + o[-3000:])
        out.add(states=int(m.group(2)), transitions=int(m.group(2)))
        out.notes.append(f"TLC {module} with P = {m.group(1)}: {m.group(2)} operator evaluations / cases checked exhaustively "
                         "(canonical results, signed order, shift and mask rules, relational forms)")


def judge_parallel(module, wd, rows, nchunks, name):
    """split the trace, judge the chunks concurrently, map deviation lines back"""
    n = len(rows)
    size = max(1, (n + nchunks - 1) // nchunks)
    parts = [(k, rows[k:k + size]) for k in range(0, n, size)]

    def one(arg):
        i, (start, part) = arg
        tp = os.path.join(wd, f"{name}.chunk{i}.ndjson")
        write_ndjson(tp, part)
        res = tlc_judge(module, module + ".cfg", {"TRACE": tp}, f"judge-{name}-{i}", timeout=3000, xmx="3g")
        if res["tool_error"]:
            raise ToolError(f"judge failed on chunk {i}:\n{res['tool_error']}")
        if res["depth"] is None or res["depth"] - 1 != len(part):
            raise ToolError(f"judge consumed {res['depth']} of {len(part)} lines (chunk {i})")
        return [(start + l, res["why"].get(l, "")) for l in res["dev"]]
    devs = []
    with ThreadPoolExecutor(max_workers=min(12, len(parts))) as ex:
        for r in ex.map(one, enumerate(parts)):
            devs += r
    return devs


def thin(rows, quick):
    """the relational operators cost ~50 ms per 254-bit evaluation in TLA+: quick keeps an even sample of them"""
    if not quick:
        return rows
    out, cnt = [], {}
    for r in rows:
        op = r.get("op")
        if op in RELATIONAL:
            cnt[op] = cnt.get(op, 0) + 1
            if cnt[op] % 5 != 0:
                continue
        out.append(r)
    return out


def run_c19(tier, out):
    wd = workdir(f"C19-{tier}")
    quick = tier == "quick"
    small_prime_mc(out, wd, "MC_CircomOps", ["MC_CircomOps13.cfg"] + ([] if quick else ["MC_CircomOps251.cfg"]), "CIRCOMOPS-MC")
    from common import bignat_accelerator
    bignat_accelerator(wd, out, seed())
    binary, _ = build_harness("default")
    tp = os.path.join(wd, "ops.ndjson")
    rc, o = run([binary, "ops", "--seed", str(seed()), "--tier", tier, "--out", tp], timeout=3600)
    if rc != 0:
        raise ToolError("harness failed:\n" + o[-2000:])
    rows = thin(read_ndjson(tp), quick and not os.path.exists(os.path.join(SPEC, "BigNat.class")))
    devs = judge_parallel("Trace_Ops", wd, rows, 12 if quick else 16, "C19")
    for line, why in devs:
        ev = rows[line - 1]
        out.violation(f"operator evaluation {json.dumps(ev)[:500]} does not follow circom's field semantics: {why}", {"kind": "ops", "event": ev})
    # negative control
    neg = [dict(r) for r in rows[:60]]
    t = next(i for i, r in enumerate(neg) if r["t"] == "op" and r.get("mont", {}).get("res") == "ok" and r["op"] == "Mul" and r["mont"]["c"])
    c = list(neg[t]["mont"]["c"])
    c[0] ^= 1
    neg[t]["mont"] = dict(neg[t]["mont"], c=c)
    neg[t]["int"] = dict(neg[t]["int"], c=c)
    if judge_parallel("Trace_Ops", wd, neg, 1, "C19neg") == []:
        raise ToolError("negative control: the operator judge accepted a corrupted trace")
    per = {}
    for r in rows:
        per[r["op"]] = per.get(r["op"], 0) + 1
    distinct = {(r["op"], json.dumps(r.get("a")), json.dumps(r.get("b")), json.dumps(r.get("c"))) for r in rows}
    for r in rows[:2] + [r for r in rows if r["op"] == "Shl"][500:502]:
        out.sample(r)
    out.add(evaluations=len(rows), distinct_nontrivial=len(distinct), traces_validated_against_impl=1 if not devs else 0, per_operator=per,
            panics=sum(1 for r in rows if "panic" in json.dumps(r)), negative_control_rejected=True,
            rule="one evaluation = one operator applied to one operand tuple from the boundary grid {0,1,2,2^k-1,2^k,2^k+1,(p-1)/2,(p+1)/2,p-2,p-1} x "
                 "{boundary values, shift counts around 64/128/192/254 and just below p} plus seeded random pairs, through both evaluators; "
                 "distinct = distinct (operator, operands)",
            checker_cmd="tlc Trace_Ops.tla (CircomOps over BigNat), 12 chunks in parallel")


def run_c20(tier, out):
    wd = workdir(f"C20-{tier}")
    quick = tier == "quick"
    small_prime_mc(out, wd, "MC_Graph", ["MC_Graph.cfg" if quick else "MC_Graph3.cfg"], "GRAPH-MC")
    out.notes[-1] = out.notes[-1].replace("operator evaluations / cases checked exhaustively (canonical results, signed order, shift and mask rules, relational forms)",
                                          "(graph, input) cases: the reference interpretation has exactly one solution; input placement is independent of the order of the names")
    from common import bignat_accelerator
    bignat_accelerator(wd, out, seed())
    binary, _ = build_harness("default")
    tp = os.path.join(wd, "graphs.ndjson")
    rc, o = run([binary, "graphs", "--seed", str(seed()), "--count", "200" if quick else "3000", "--out", tp], timeout=3600)
    if rc != 0:
        raise ToolError("harness failed:\n" + o[-2000:])
    rows = read_ndjson(tp)
    devs = judge_parallel("Trace_Graph", wd, rows, 8 if quick else 16, "C20")
    for line, why in devs:
        ev = rows[line - 1]
        brief = {k: (v if len(json.dumps(v)) < 400 else "<long>") for k, v in ev.items()}
        out.violation(f"graph {ev.get('g')} is not evaluated / stored as the reference interpretation demands: {json.dumps(brief)[:500]} {why}",
                      {"kind": "graph", "event": ev})
    # the bundled graph under several insertion orders (order independence on the real circuit) is part of C04's and C18's
    # workloads; here: negative control
    neg = [dict(r) for r in rows[:20]]
    t = next(i for i, r in enumerate(neg) if r.get("res") == "ok" and len(r["values"]) > 3)
    vals = [list(v) for v in neg[t]["values"]]
    k = next(i for i, nd in enumerate(neg[t]["nodes"]) if nd["k"] in ("op", "uno", "tres"))
    vals[k] = [(vals[k][0] + 1) % 256] + vals[k][1:] if vals[k] else [1]
    neg[t]["values"] = vals
    if judge_parallel("Trace_Graph", wd, neg, 1, "C20neg") == []:
        raise ToolError("negative control: the graph judge accepted a corrupted trace")
    nodes = sum(len(r["nodes"]) for r in rows)
    kinds = {}
    for r in rows:
        for nd in r["nodes"]:
            key = nd.get("op", nd["k"])
            kinds[key] = kinds.get(key, 0) + 1
    distinct = {json.dumps([r["nodes"], r["inputs"]]) for r in rows}
    for r in rows[:2]:
        out.sample({k: (v if len(json.dumps(v)) < 600 else "<long>") for k, v in r.items()})
    out.add(evaluations=len(rows), distinct_nontrivial=len(distinct), programs=len(rows), traces_validated_against_impl=1 if not devs else 0,
            nodes_judged=nodes, node_kinds=kinds, negative_control_rejected=True,
            rule="one evaluation = one seeded random well-formed graph (1..60 nodes over every supported node kind, input nodes anywhere, "
                 "named inputs at random offsets with gaps) with boundary/random inputs: every node value judged against Graph.tla, outputs, "
                 "storage round trip, stored graph under 3 insertion orders; distinct = distinct (graph, inputs)",
            checker_cmd="tlc Trace_Graph.tla (Graph + CircomOps over BigNat), chunks in parallel")


def run_grain(wd, out, binary, quick):
    """Grain.tla: the parameter generation as a state machine; TLC runs it to the end against (a) the constants the library
    generates at run time and (b) the circomlib table the Poseidon judge uses: both must be the specified stream."""
    import copy
    import time
    lib = os.path.join(wd, "lib_consts.json")
    rc, o = run([binary, "poseidon-consts", "--out", lib], timeout=600)
    if rc != 0 or not os.path.exists(lib):
        # generating the parameters crashed in the library: data, not a tool failure
        out.violation("the library's Poseidon parameter generation failed: " + o[-400:], {"kind": "grain", "what": "generation failed"})
        return
    table = os.path.join(SPEC, "poseidon_constants.json")
    libv = json.load(open(lib))
    # negative control: one round constant and one matrix entry of the library's set 1 altered -> Conforms must be violated
    neg = copy.deepcopy(libv)
    neg["C"][0][2] = list(neg["C"][0][2])
    neg["C"][0][2][0] ^= 1
    negp = os.path.join(wd, "neg_consts.json")
    json.dump(neg, open(negp, "w"))
    neg2 = copy.deepcopy(libv)
    neg2["M"][0][1][0] = list(neg2["M"][0][1][0])
    neg2["M"][0][1][0][3] ^= 4
    neg2p = os.path.join(wd, "neg2_consts.json")
    json.dump(neg2, open(neg2p, "w"))
    sets = [1, 2, 3] if quick else list(range(1, 9))
    jobs = [("lib", lib, i) for i in sets] + [("table", table, i) for i in ([1] if quick else range(1, 9))] + [("neg", negp, 1), ("neg2", neg2p, 1)]

    def one(job):
        kind, path, idx = job
        meta = os.path.join(wd, f"grain-{kind}-{idx}")
        t0 = time.time()
        rc, o = run(["timeout", "1500", "tlc", "-workers", "1", "-metadir", meta, "-cleanup", "-noGenerateSpecTE", "-coverage", "1",
                     "-config", "MC_Grain.cfg", "Grain.tla"], cwd=SPEC,
                    env={"GRAIN_TABLE": path, "GRAIN_IDX": str(idx), "JAVA_TOOL_OPTIONS": "-Xss512m -Xmx2g"}, timeout=1600)
        import shutil
        shutil.rmtree(meta, ignore_errors=True)
        return job, o, time.time() - t0
    results = []
    with ThreadPoolExecutor(max_workers=8) as ex:
        results = list(ex.map(one, jobs))
    drawn = rejected = entries = 0
    for (kind, path, idx), o, wall in results:
        viol = re.search(r"Error: Invariant (\w+) is violated", o) or re.search(r"Error: The invariant of (\w+) is equal to FALSE", o)
        done = re.search(r'<<"GRAIN-DONE", (\d+), (\d+), (\d+), (\d+), (\d+), (\d+), (\d+)>>', o)
        fin = "Model checking completed. No error has been found" in o
        if kind in ("neg", "neg2"):
            if not (viol and viol.group(1) == "Conforms"):
                raise ToolError(f"negative control: Grain.tla accepted a table with an altered {'round constant' if kind == 'neg' else 'matrix entry'}:\n" + o[-1500:])
            continue
        if viol:
            bad = re.findall(r"bad = (\{.*\})", o)
            what = (f"parameter set {idx} (t = {idx + 1}): invariant {viol.group(1)} of Grain.tla violated, {bad[-1] if bad else ''}"
                    + (f" (round numbers T={libv.get('T')} RF={libv.get('RF')} RP={libv.get('RP')})" if viol.group(1) == "ParamsOK" and kind == "lib" else ""))
            if kind == "table":
                raise ToolError("the circomlib table of the Poseidon judge is not the specified Grain stream: " + what)
            out.violation("the Poseidon parameters the library generates are not the Grain-LFSR-derived ones: " + what,
                          {"kind": "grain", "idx": idx, "invariant": viol.group(1), "bad": bad[-1] if bad else None})
            continue
        if not fin or not done:
            raise ToolError(f"Grain.tla run ({kind}, set {idx}) did not finish:\n" + o[-2000:])
        acts = dict((m.group(1), int(m.group(2))) for m in re.finditer(r"^<(\w+) line \d+, col \d+ to line \d+, col \d+ of module Grain>: (\d+):", o, re.M))
        never = [a for a in ("WarmUp", "Ark", "ArkDone", "SeedX", "SeedY", "Entry", "Finish") if acts.get(a, 0) == 0]
        if never:
            raise ToolError(f"vacuity: Grain.tla actions never taken ({kind}, set {idx}): {never}")
        if kind == "lib":
            drawn += int(done.group(5))
            rejected += int(done.group(6))
            entries += (idx + 1) ** 2
    out.notes.append(f"Grain.tla: parameter sets {sets} of the library's run-time constants and set(s) {[1] if quick else list(range(1, 9))} of the judge's table "
                     f"are the specified stream ({drawn} round constants, {rejected} rejected draws, {entries} matrix entries checked as inverses)")
    out.add(grain_sets_checked=sets, grain_round_constants=drawn, grain_rejected_draws=rejected, grain_matrix_entries=entries,
            grain_negative_controls_rejected=2)


def run_c09(tier, out):
    """Poseidon / hash-to-field with TLC as verifier of certificates (Poseidon.tla) and as reference interpreter (Keccak.tla)"""
    from common import bignat_accelerator
    wd = workdir(f"C09-{tier}")
    quick = tier == "quick"
    # Keccak.tla against the standard vectors ("" and "abc"), evaluated by TLC
    rc, o = run(["timeout", "600", "tlc", "-workers", "1", "-metadir", os.path.join(wd, "kc"), "-cleanup", "-config", "MC_Keccak.cfg", "MC_Keccak.tla"],
                cwd=SPEC, timeout=700)
    if "KECCAK-VECTORS-OK" not in o or "Model checking completed. No error has been found" not in o:
        raise ToolError("Keccak.tla does not reproduce the standard vectors:\n" + o[-2000:])
    out.notes.append("TLC Keccak.tla reproduces the Keccak-256 standard vectors for \"\" and \"abc\"")
    bignat_accelerator(wd, out, seed())
    binary, _ = build_harness("default")
    run_grain(wd, out, binary, quick)
    tp = os.path.join(wd, "hashes.ndjson")
    rc, o = run([binary, "hashes", "--seed", str(seed()), "--consts", os.path.join(SPEC, "poseidon_constants.json"), "--tier", tier, "--out", tp], timeout=3600)
    if rc != 0:
        raise ToolError("harness failed:\n" + o[-2000:])
    rows = read_ndjson(tp)
    devs = judge_parallel("Trace_Hash", wd, rows, len(rows), "C09")
    for line, why in devs:
        ev = rows[line - 1]
        brief = {k: (v if len(json.dumps(v)) < 300 else "<long>") for k, v in ev.items()}
        out.violation(f"hash evaluation does not conform: {json.dumps(brief)[:500]} {why}", {"kind": "hash", "event": brief})
    # negative control: the library output of one Poseidon line altered
    neg = [dict(rows[0])]
    o2 = list(neg[0]["out"])
    o2[0] ^= 1
    neg[0]["out"] = o2
    neg[0]["threads"] = [o2 for _ in neg[0]["threads"]]
    if judge_parallel("Trace_Hash", wd, neg, 1, "C09neg") == []:
        raise ToolError("negative control: the hash judge accepted a corrupted trace")
    ar = sorted({r["n"] for r in rows if r["t"] == "poseidon"})
    lens = sorted({len(r["msg"]) for r in rows if r["t"] == "keccak"})
    steps = sum(len(r["cert"]["rounds"]) for r in rows if r["t"] == "poseidon")
    for r in rows[:1] + [r for r in rows if r["t"] == "keccak"][:1]:
        out.sample({k: (v if len(json.dumps(v)) < 300 else "<long>") for k, v in r.items()})
    out.add(evaluations=len(rows), distinct_nontrivial=len(rows), traces_validated_against_impl=1 if not devs else 0,
            poseidon_arities=ar, poseidon_rounds_verified=steps, keccak_lengths=lens, negative_control_rejected=True,
            rule="one evaluation = one hash: Poseidon for every arity 1..8 (random, {0,p-1,1} patterns, equal elements in thorough) verified "
                 "round by round against Poseidon.tla with the circomlib tables; hash-to-field for block-boundary lengths recomputed by "
                 "Keccak.tla and reduced modulo p by TLC; typed, byte-level, FFI entry points and 4 threads compared; every case is distinct",
            checker_cmd="tlc Trace_Hash.tla (Poseidon + Keccak + BigNat), one hash per TLC process in parallel")


def run_c05(tier, out):
    """the graph evaluator against the reference circom generator rln.wasm (run under node's WebAssembly)"""
    import shutil
    from common import REPO, bignat_accelerator
    wd = workdir(f"C05-{tier}")
    quick = tier == "quick"
    node = shutil.which("node")
    if not node:
        raise ToolError("no WebAssembly runtime (node) in this sandbox: the reference generator cannot be executed")
    binary, _ = build_harness("default")
    cases = os.path.join(wd, "cases.ndjson")
    code = os.path.join(wd, "code.ndjson")
    ref = os.path.join(wd, "ref.ndjson")
    n = 48 if quick else 600
    rc, o = run([binary, "witness", "--seed", str(seed()), "--count", str(n), "--cases", cases, "--out", code], timeout=3600)
    if rc != 0:
        raise ToolError("harness failed:\n" + o[-2000:])
    wasm = os.path.join(REPO, "rln", "resources", "tree_height_20", "rln.wasm")
    rc, o = run([node, os.path.join(os.path.dirname(SPEC), "tools", "wasm_witness.js"), wasm, cases, ref], timeout=3600)
    if rc != 0:
        raise ToolError("reference generator run failed:\n" + o[-2000:])
    crow, rrow = read_ndjson(code), read_ndjson(ref)
    if len(crow) != len(rrow):
        raise ToolError("reference run incomplete")
    rows = [{"t": "witness", "id": c["id"], "code": c["code"], "ref": r} for c, r in zip(crow, rrow)]
    accepted = sum(1 for r in rrow if r["res"] == "ok")
    if accepted < len(rows) // 2:
        raise ToolError(f"scenario error: the reference generator accepted only {accepted} of {len(rows)} assignments")
    devs = judge_parallel("Trace_Witness", wd, rows, 4 if quick else 12, "C05")
    for line, why in devs:
        ev = rows[line - 1]
        case = read_ndjson(cases)[ev["id"]]
        out.violation(f"witness of assignment {ev['id']} differs from the reference generator's: {why}", {"kind": "witness", "case": case})
    # the REAL graph judged node by node against the reference interpretation (Graph.tla), incl. storage round trip and orders
    bignat_accelerator(wd, out, seed())
    bp = os.path.join(wd, "bundled.ndjson")
    rc, o = run([binary, "bundled", "--seed", str(seed()), "--out", bp], timeout=3600)
    if rc != 0:
        raise ToolError("harness failed:\n" + o[-2000:])
    brow = read_ndjson(bp)
    bdev = judge_parallel("Trace_Graph", wd, brow, 1, "C05g")
    for line, why in bdev:
        out.violation(f"the bundled graph is not evaluated / stored as its reference interpretation demands: {why}", {"kind": "bundled"})
    # negative control: one element of one computed vector altered
    neg = [json.loads(json.dumps(next(r for r in rows if r["ref"]["res"] == "ok")))]
    neg[0]["code"][0][4000] = "12345"
    if judge_parallel("Trace_Witness", wd, neg, 1, "C05neg") == []:
        raise ToolError("negative control: the witness judge accepted a corrupted trace")
    out.sample({"id": rows[0]["id"], "inputs": read_ndjson(cases)[0]["inputs"], "reference": rows[0]["ref"]["res"],
                "witness_len": len(rows[0]["code"][0]), "first_signals": rows[0]["code"][0][:6]})
    out.add(evaluations=len(rows) + 1, distinct_nontrivial=accepted, programs=len(rows), disagreements_checked=len(devs),
            accepted_by_reference=accepted, rejected_by_reference=len(rows) - accepted, witness_length=len(rows[0]["code"][0]),
            order_variants=sum(len(r["code"]) for r in rows), bundled_graph_nodes_judged=len(brow[0]["nodes"]),
            traces_validated_against_impl=1 if not devs and not bdev else 0, negative_control_rejected=True,
            rule="one evaluation = one 45-value input assignment (limb-boundary values 2^64k-1 / 2^64k / 2^64k+1, near-modulus and random field "
                 "values, all limits and boundary message ids, direction-bit patterns) evaluated by the graph evaluator (1 or 3 insertion orders) "
                 "and by rln.wasm under node's WebAssembly; non-trivial = accepted by the reference; plus the bundled graph judged node by node",
            checker_cmd="tlc Trace_Witness.tla on (evaluator, rln.wasm) witness pairs; tlc Trace_Graph.tla on the bundled graph")
