"""C16 (and the reopen clause of C15): Storage.tla model checking, fault enumeration on the real
persistent backend through hook H1, judging with Trace_Storage.tla."""
import json
import os
import random
import shutil

import tree
from common import (SPEC, WORK, ToolError, build_harness, kf_for, read_ndjson, require_mc_ok, run, seed, tlc_judge,
                    tlc_mc, workdir, write_ndjson)

CONFIGS = [
    {},
    {"mode": "LowSpace", "cache_capacity": 100000, "flush_every_ms": 1},
    {"mode": "HighThroughput", "cache_capacity": 4096},
    {"cache_capacity": 1073741824, "flush_every_ms": 12000, "use_compression": False},
]
OPS = ["set", "delete", "append", "range"]


def model_check(tier, wd, out):
    cfg = os.path.join(wd, "MC_Storage.cfg")
    for d, maxops in ((2, 2),) if tier == "quick" else ((2, 3), (1, 4)):
        with open(cfg, "w") as f:
            f.write(f"SPECIFICATION Spec\nCONSTANTS\n  D = {d}\n  Vals = {{1, 2}}\n  MaxOps = {maxops}\n  MaxBatch = 2\n  Variant = \"none\"\n"
                    "INVARIANTS Durable Reported Dur CrashDur FlushBarrier LiveEqualsLoaded\nCHECK_DEADLOCK FALSE\n")
        res = tlc_mc("Storage", cfg, f"mc-storage-{out.prop}", workers=8, timeout=3000)
        require_mc_ok(res, f"Storage.tla D={d} MaxOps={maxops}",
                      must_take=["StartDelete", "StartAppend", "StartRange", "Step", "Crash"])
        out.add(states=res["distinct"], transitions=res["generated"])
        out.notes.append(f"TLC Storage.tla D={d} MaxOps={maxops} (every fault position and every crash point of every history): {res['distinct']} "
                         f"distinct states, {res['generated']} transitions; Durable, Reported, Dur, CrashDur, FlushBarrier, LiveEqualsLoaded hold")
    # vacuity control: the lazy flush (seeded C16-m4) must be refuted by the crash-point invariants
    with open(cfg, "w") as f:
        f.write("SPECIFICATION Spec\nCONSTANTS\n  D = 1\n  Vals = {1, 2}\n  MaxOps = 4\n  MaxBatch = 2\n  Variant = \"lazy-flush\"\n"
                "INVARIANTS CrashDur FlushBarrier\nCHECK_DEADLOCK FALSE\n")
    res = tlc_mc("Storage", cfg, f"mc-storage-{out.prop}-neg", workers=2, timeout=900, coverage=False)
    if not res.get("violated"):
        raise ToolError("Storage.tla: the lazy-flush variant was not refuted (vacuous crash-point invariants)")
    out.notes.append("Storage.tla: the faulty variant 'lazy-flush' (flush skipped after batch-only writes) is refuted by TLC")
    # the two known findings of the external tree crate, as a named deviation of the design: the property's second sentence
    # (reports, acknowledged updates, crash points) still holds, "what the instance reports is what a reopen finds" does not
    for invs, expect_violation in (("Reported Dur CrashDur", False), ("LiveEqualsLoaded", True)):
        with open(cfg, "w") as f:
            f.write("SPECIFICATION Spec\nCONSTANTS\n  D = 1\n  Vals = {1, 2}\n  MaxOps = 2\n  MaxBatch = 2\n  Variant = \"memory-first\"\n"
                    f"INVARIANTS {invs}\nCHECK_DEADLOCK FALSE\n")
        res = tlc_mc("Storage", cfg, f"mc-storage-{out.prop}-kf", workers=2, timeout=900, coverage=False)
        if expect_violation != bool(res.get("violated")) or (not expect_violation and not res.get("finished")):
            raise ToolError(f"Storage.tla variant 'memory-first': invariants {invs} - expected violation={expect_violation}:\n" + res["out"][-1500:])
    out.notes.append("Storage.tla: the variant 'memory-first' (in-memory count raised before the writes, root replaced after them: the known "
                     "findings pm-next-memory-ahead / pm-batch-root-memory-behind) keeps Reported, Dur, CrashDur and violates LiveEqualsLoaded")


def meta_value(rnd):
    """application metadata: arbitrary bytes, incl. all-zero values (a block number 0) and a single zero"""
    k = rnd.randrange(6)
    if k == 0:
        return [0] * 8
    if k == 1:
        return [0]
    return [rnd.randrange(256) for _ in range(rnd.choice([1, 3, 5, 40]))]


def histories_from_tlc(wd, rnd, num, length, depth):
    """operation histories from TLC -simulate on Tree.tla (calls the persistent API supports)"""
    sc, nb = tree.gen_sim(wd, f"st{depth}", depth, [0, 1, 2], 2, 1, OPS, num, length, seed() + 31 * depth)
    hs, cur = [], None
    for op in sc:
        if op["c"] == "reset":
            cur = []
            hs.append(cur)
        else:
            cur.append(op)
    # metadata / batch initialisation / explicit flush are not in Tree.tla's alphabet: woven in here
    for h in hs:
        for _ in range(rnd.choice([0, 1, 2])):
            h.insert(rnd.randrange(len(h) + 1), {"c": "set_meta", "m": meta_value(rnd)})
        if rnd.random() < 0.3:
            h.insert(rnd.randrange(len(h) + 1), {"c": "flush"})
    return hs


def big_history(rnd, length):
    h = []
    for _ in range(length):
        c = rnd.choice(["set", "set", "append", "delete", "range", "set_meta"])
        pos = rnd.choice([0, 1, 255, (1 << 19) - 1, 1 << 19, (1 << 20) - 1, rnd.randrange(300)])
        v = rnd.choice([0, 1, 2, 7])
        if c == "set":
            h.append({"c": "set", "i": pos, "v": v})
        elif c == "append":
            h.append({"c": "append", "v": v})
        elif c == "delete":
            h.append({"c": "delete", "i": pos})
        elif c == "range":
            h.append({"c": "range", "s": rnd.choice([0, 3, 255, 1 << 19]), "vs": [rnd.choice([1, 2, 0]) for _ in range(rnd.choice([1, 2, 4]))]})
        else:
            h.append({"c": "set_meta", "m": meta_value(rnd)})
    return h


def clean_scenario(idx, d, h, cfg, cont, with_init):
    """fault-free: history, flush, close, reopen (Durable), continue, close, reopen again"""
    o = {"c": "open", "d": d, "path": f"p{idx}", "cfg": cfg}
    if d > 5:
        o["probe"] = tree.PROBES
    sc = [dict(o)] + h + [{"c": "flush"}, {"c": "drop"}, dict(o)] + cont + [{"c": "flush"}, {"c": "drop"}, dict(o)]
    if with_init:
        sc += [{"c": "init", "vs": [1, 2]}, {"c": "set", "i": 3, "v": 2}, {"c": "flush"}, {"c": "drop"}, dict(o)]
    return sc


def fault_scenario(idx, d, h, cfg, ks, retry=True):
    """retry: the call hit by the failure is issued again (every other history); without it the history ends with the
    failed call, a flush and the reopen - what the instance reports after the failure must be what the reopen finds"""
    sc = []
    for k in ks:
        o = {"c": "open", "d": d, "path": f"f{idx}_{k}", "cfg": cfg}
        if d > 5:
            o["probe"] = tree.PROBES
        # every call is followed by a retry line that only runs if the injected failure hit that call
        hh = []
        for op in h:
            hh.append(op)
            if retry:
                hh.append(dict(op, retry=True))
        sc += [{"c": "arm", "k": k}, dict(o)] + hh + [{"c": "flush"}, {"c": "disarm"}, {"c": "drop"}, dict(o), {"c": "drop"}]
    return sc


def crash_history(rnd, d):
    """a history for crash points BETWEEN calls: populate + flush, then every write path of the storage adapter on its
    own between two flushes (single write, removal, append, one-leaf and several-leaf ranges that do not grow the tree
    - only the batch path -, a growing range, the batch entry point in its undisputed shapes, metadata), in a seeded
    order, then an unflushed tail"""
    cap = 1 << d
    n0 = min(cap - 1, 3 + rnd.randrange(2))
    h = [{"c": "range", "s": 0, "vs": [rnd.choice([1, 2, 3]) for _ in range(n0)]}, {"c": "flush"}]
    st2 = rnd.randrange(max(1, n0 - 1))
    paths = [
        {"c": "set", "i": rnd.randrange(n0), "v": rnd.choice([5, 9])},
        {"c": "delete", "i": rnd.randrange(n0)},
        {"c": "range", "s": rnd.randrange(n0), "vs": [rnd.choice([4, 7])]},
        {"c": "range", "s": st2, "vs": [rnd.choice([4, 5, 7]), rnd.choice([4, 5, 7])]},
        {"c": "override", "s": st2, "vs": [rnd.choice([3, 8]), rnd.choice([3, 8])], "rem": []},
        {"c": "override", "s": 0, "vs": [], "rem": [rnd.randrange(n0)]},
        {"c": "set_meta", "m": meta_value(rnd)},
        {"c": "append", "v": rnd.choice([1, 6])},
    ]
    rnd.shuffle(paths)
    for w in paths:
        h += [w, {"c": "flush"}]
    h.append({"c": "set", "i": 0, "v": 11})          # unflushed tail
    return h


def execute(binary, wd, name, scenario):
    sp = os.path.join(wd, f"{name}.scen.ndjson")
    tp = os.path.join(wd, f"{name}.trace.ndjson")
    tb = os.path.join(wd, f"{name}.tab.json")
    dirp = os.path.join(wd, f"db-{name}")
    shutil.rmtree(dirp, ignore_errors=True)
    write_ndjson(sp, scenario)
    rc, o = run([binary, "storage", "--scenario", sp, "--out", tp, "--tab", tb, "--dir", dirp], timeout=3600)
    shutil.rmtree(dirp, ignore_errors=True)
    if rc != 0:
        raise ToolError(f"harness failed ({rc}):\n{o[-3000:]}")
    return tp, tb


def judge(prop, wd, name, tp, tb, kf_names):
    ctl = os.path.join(wd, f"{name}.ctl.json")
    with open(ctl, "w") as f:
        json.dump({"prop": prop, "kf": kf_names}, f)
    res = tlc_judge("Trace_Storage", "Trace_Storage.cfg", {"TRACE": tp, "TABLE": tb, "CTL": ctl}, f"judge-{prop}-{name}")
    if res["tool_error"]:
        raise ToolError(f"judge failed on {tp}:\n{res['tool_error']}")
    return res


def report(out, prop, name, rows, scenario, res, kf_desc):
    for kname, line in res["kf"]:
        out.known(kname, kf_desc.get(kname, ""))
    for line in res["dev"]:
        ev = rows[line - 1]
        k = ev["k"]
        start = k
        while start > 0 and scenario[start]["c"] != "crashrun" and not (scenario[start]["c"] == "open" and not any(
                s.get("path") == scenario[start].get("path") and s["c"] == "open" for s in scenario[:start])):
            start -= 1
        if start > 0 and scenario[start - 1]["c"] == "arm":
            start -= 1
        what = ev.get("op") or {"open": ev.get("path"), "existed": ev.get("existed")}
        desc = (f"{ev['t']} {json.dumps(what)} -> {ev.get('res')} (fault fired: {ev.get('fired')}) violates the storage "
                f"specification ({name}, trace line {line}): {res['why'].get(line, '')}")
        out.violation(desc, {"kind": "storage", "prop": prop, "scenario": scenario[start:k + 1],
                             "event": {kk: ev[kk] for kk in ev if kk != "obs"}})


def run_c16(tier, out, prop="C16"):
    wd = workdir(f"{prop}-{tier}")
    rnd = random.Random(seed() * 104729 + 16)
    quick = tier == "quick"
    if prop == "C16":
        model_check(tier, wd, out)
    binary, _ = build_harness("default")
    kfs = kf_for(prop)
    kf_names = [f["name"] for f in kfs]
    kf_desc = {f["name"]: f["what"] for f in kfs}
    hs = histories_from_tlc(wd, rnd, 10 if quick else 60, 5, 2) + histories_from_tlc(wd, rnd, 3 if quick else 20, 6, 3)
    bigs = [big_history(rnd, 6) for _ in range(2 if quick else 10)]
    total = fired = nontriv = 0
    traces = 0
    fault_points = 0
    crashes = 0
    seen = set()
    for idx, h in enumerate([(2 if i < (10 if quick else 60) else 3, h) for i, h in enumerate(hs)] + [(20, h) for h in bigs]):
        d, h = h
        cfg = CONFIGS[idx % len(CONFIGS)]
        cont = tree.gen_random(rnd, OPS, 1, 5, depths=(d,))[1:] if d <= 5 else big_history(rnd, 4)
        sc = clean_scenario(idx, d, h, cfg, cont, with_init=(idx % 3 == 0))
        tp, tb = execute(binary, wd, f"clean{idx}", sc)
        rows = read_ndjson(tp)
        res = judge(prop, wd, f"clean{idx}", tp, tb, kf_names)
        if res["depth"] is None or res["depth"] - 1 != len(rows):
            raise ToolError(f"judge consumed {res['depth']} of {len(rows)} lines for clean{idx}")
        report(out, prop, f"clean{idx}", rows, sc, res, kf_desc)
        total += len(rows)
        traces += 1
        if idx == 0:
            out.sample({"scenario": "fault-free", "config": cfg, "calls": sc[:8], "note": "flush, close, reopen, continue, reopen"})
            neg = negative_control(prop, wd, tp, tb, kf_names)
            if neg is False:
                raise ToolError("negative control: the storage judge accepted a corrupted trace (binding broken)")
            out.add(negative_control_rejected=bool(neg))
        if prop != "C16":
            continue
        # number of storage operations of creation + history + flush, measured by the hook on the clean run
        w = 0
        firsts = set()               # the first storage operation of every call of the history (every call kind gets hit)
        metas = set()
        for r in rows:
            if r["t"] in ("open", "op"):
                if r.get("sops", 0) > 0:
                    firsts.add(w + 1)
                    if r["t"] == "op" and r["op"]["c"] == "set_meta":
                        metas.add(w + 1)
                w += r.get("sops", 0)
            if r["t"] == "drop":
                break
        ks = list(range(1, w + 1))
        if quick and len(ks) > 8:
            keep = {1, 5, 6, w, w - 1} | metas
            keep |= set(rnd.sample(sorted(firsts), min(3, len(firsts))))
            keep |= set(rnd.sample(ks, 3))
            ks = sorted(k for k in ks if k in keep)
        if d > 5 and len(ks) > 12:
            ks = sorted(set(rnd.sample(ks, 12)) | {1, w})
        fsc = fault_scenario(idx, d, h, cfg, ks, retry=(idx % 2 == 0))
        tp, tb = execute(binary, wd, f"fault{idx}", fsc)
        rows = read_ndjson(tp)
        res = judge(prop, wd, f"fault{idx}", tp, tb, kf_names)
        if res["depth"] is None or res["depth"] - 1 != len(rows):
            raise ToolError(f"judge consumed {res['depth']} of {len(rows)} lines for fault{idx}")
        report(out, prop, f"fault{idx}", rows, fsc, res, kf_desc)
        total += len(rows)
        traces += 1
        nf = sum(1 for r in rows if r.get("fired"))
        fired += nf
        fault_points += len(ks)
        for r in rows:
            if r.get("fired"):
                key = (idx, json.dumps(r.get("op") or "open", sort_keys=True), r.get("sops"))
                if key not in seen:
                    seen.add(key)
                    nontriv += 1
        # crash points: the process dies inside the k-th storage operation (child process, H1 in abort mode); a flush
        # in the middle of the history fixes what must survive
        if d <= 5 and (not quick or idx < 5):
            hc = list(h)
            hc.insert(len(hc) // 2, {"c": "flush"})
            cks = sorted(set([1, 5, 6, w + 1, w + 3] + rnd.sample(range(1, w + 2), min(3 if quick else w, w))))
            csc = [{"c": "crashrun", "d": d, "path": f"c{idx}_{k}", "cfg": cfg, "crash_at": k, "hist": hc} for k in cks]
            tp, tb = execute(binary, wd, f"crash{idx}", csc)
            crow = read_ndjson(tp)
            res = judge(prop, wd, f"crash{idx}", tp, tb, kf_names)
            if res["depth"] is None or res["depth"] - 1 != len(crow):
                raise ToolError(f"judge consumed {res['depth']} of {len(crow)} lines for crash{idx}")
            report(out, prop, f"crash{idx}", crow, csc, res, kf_desc)
            total += len(crow)
            traces += 1
            crashes += sum(1 for r in crow if r["t"] == "crash" and r.get("aborted"))
        if d <= 5 and (not quick or idx < 3):
            # crash points BETWEEN calls: the process dies right after the n-th call returned (every n, so also right
            # after each acknowledged flush); histories made of the adapter's different write paths
            hb = crash_history(rnd, d)
            ns = [n for n in range(1, len(hb) + 1) if hb[n - 1]["c"] == "flush" or not quick]
            bsc = [{"c": "crashrun", "d": d, "path": f"b{idx}_{n}", "cfg": cfg, "crash_at": 0, "abort_after": n, "hist": hb} for n in ns]
            tp, tb = execute(binary, wd, f"between{idx}", bsc)
            brow = read_ndjson(tp)
            res = judge(prop, wd, f"between{idx}", tp, tb, kf_names)
            if res["depth"] is None or res["depth"] - 1 != len(brow):
                raise ToolError(f"judge consumed {res['depth']} of {len(brow)} lines for between{idx}")
            report(out, prop, f"between{idx}", brow, bsc, res, kf_desc)
            total += len(brow)
            traces += 1
            crashes += sum(1 for r in brow if r["t"] == "crash" and r.get("aborted"))
        if idx == 1:
            out.sample({"scenario": "fault enumeration", "history": h, "storage_operations": w, "fault_positions": ks,
                        "first_fired_event": next(({kk: r[kk] for kk in r if kk != "obs"} for r in rows if r.get("fired")), None)})
    out.add(evaluations=total, distinct_nontrivial=max(nontriv, traces), traces_validated_against_impl=traces,
            fault_positions_injected=fault_points, faults_fired=fired, crash_points_hit=crashes,
            rule="one evaluation = one recorded call/open/reopen judged by Trace_Storage.tla; a fault case = (history, "
                 "k-th storage operation) with the hook armed; distinct non-trivial = distinct (history, call hit, "
                 "position inside the call) in which the hook actually fired",
            checker_cmd="tlc Trace_Storage.tla on traces recorded by zkexec storage")
    if prop == "C16" and fired == 0:
        raise ToolError("no injected fault fired: the fault enumeration did not exercise anything")


def negative_control(prop, wd, tp, tb, kf_names):
    rows = read_ndjson(tp)
    idx = [i for i, r in enumerate(rows) if r["t"] == "open" and r.get("existed") and "broken" not in r.get("obs", {})]
    if not idx:
        return None
    i = idx[0]
    o = rows[i]["obs"]
    if prop == "C15":
        o["empties"] = [x for x in range(o["next"] + 2)]
    else:
        o["next"] = o["next"] + 1
    cp = os.path.join(wd, "neg.trace.ndjson")
    write_ndjson(cp, rows)
    res = judge(prop, wd, "neg", cp, tb, kf_names)
    return (i + 1) in set(res["dev"])
