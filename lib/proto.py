"""Protocol group (C01 C02 C03 C04 C12 C13): Rln.tla model checking, class products enumerated by TLC
(ProtoGen.tla), scenarios with real Groth16 proofs at depth 20, judged by Trace_Proto.tla."""
import itertools
import json
import os
import random
import re

from common import (SPEC, ToolError, build_harness, kf_for, read_ndjson, require_mc_ok, run, seed, tlc_judge, tlc_mc,
                    workdir, write_ndjson)

BIG = 1 << 20


def I(v):
    return {"k": "int", "v": v}


def fv_label(lbl, rnd):
    return {"0": I(0), "1": I(1), "p-1": {"k": "pm", "v": 1}, "rnd": {"k": "rnd", "s": rnd.randrange(1, 1 << 30)}}[lbl]


def idx_label(lbl, rnd):
    return {"0": 0, "1": 1, "255": 255, "2^19-1": (1 << 19) - 1, "2^19": 1 << 19, "2^20-1": BIG - 1,
            "rnd": rnd.randrange(2, BIG - 2)}[lbl]


def lim_label(lbl):
    return {"1": 1, "2": 2, "100": 100, "2^16-1": 65535, "2^16": 65536}[lbl]


def sig_label(lbl, rnd):
    n = {"empty": 0, "1B": 1, "135B": 135, "136B": 136, "137B": 137, "10kB": 10000}[lbl]
    return {"len": n, "seed": rnd.randrange(1 << 30)}


def model_check(tier, wd, out):
    cfg = os.path.join(wd, "MC_Rln.cfg")
    big = tier == "thorough"
    with open(cfg, "w") as f:
        f.write("SPECIFICATION Spec\nCONSTANTS\n  P = 13\n  Secrets = {1, 3}\n")
        f.write("  Limits = {1, 2}\n" if big else "  Limits = {2}\n")
        f.write("  MaxLimit = 2\n  Epochs = {1}\n  Xs = {2, 5}\n  Mids = {0, 1, 2}\n  MaxWire = 2\n  MaxTamper = 1\n")
        f.write("  WithRemove = FALSE\nINVARIANTS Completeness Soundness RootSetSoundness Shamir ProverHonest\nCHECK_DEADLOCK FALSE\n")
    res = tlc_mc("Rln", cfg, f"mc-rln-{out.prop}", workers=12, timeout=3000)
    require_mc_ok(res, "Rln.tla", must_take=["Register", "Prove", "ProveReject", "Next"])
    out.add(states=res["distinct"], transitions=res["generated"])
    out.notes.append(f"TLC Rln.tla (P=13, depth 1, 2 secrets, {'2' if big else '1'} limits, 3 message ids, 2 signals, <=2 messages "
                     f"+ 1 adversary copy): {res['distinct']} distinct states, {res['generated']} transitions; Completeness, "
                     f"Soundness, RootSetSoundness, Shamir, ProverHonest hold; actions {res['actions']}")


_classes = None


def classes(wd):
    """abstract transition classes enumerated by TLC (ProtoGen.tla)"""
    global _classes
    if _classes is None:
        cfg = os.path.join(wd, "ProtoGen.cfg")
        open(cfg, "w").write("")
        rc, o = run(["timeout", "300", "tlc", "-config", cfg, "-metadir", os.path.join(wd, "pg"), "-cleanup", "ProtoGen.tla"],
                    cwd=SPEC, timeout=400)
        got = {}
        for m in re.finditer(r'^<<"(PROVE|TAMPER|UNSAT)", "(.*)">>$', o, re.M):
            got[m.group(1)] = json.loads(m.group(2).replace('\\"', '"'))
        if len(got) != 3:
            raise ToolError("ProtoGen enumeration failed:\n" + o[-2000:])
        _classes = got
    return _classes


def pairwise(cases, n, rnd):
    """seeded greedy pairwise cover: pick up to n cases covering as many (dimension,value) pairs as possible"""
    cases = list(cases)
    rnd.shuffle(cases)
    need = set()
    for c in cases:
        ks = sorted(c)
        for a, b in itertools.combinations(ks, 2):
            need.add((a, c[a], b, c[b]))
    chosen = []
    pool = cases
    while need and len(chosen) < n:
        cand = rnd.sample(pool, min(400, len(pool)))
        best, gain = None, -1
        for c in cand:
            ks = sorted(c)
            g = sum(1 for a, b in itertools.combinations(ks, 2) if (a, c[a], b, c[b]) in need)
            if g > gain:
                best, gain = c, g
        if gain <= 0:
            break
        chosen.append(best)
        ks = sorted(best)
        for a, b in itertools.combinations(ks, 2):
            need.discard((a, best[a], b, best[b]))
    return chosen, len(need)


# ---------------------------------------------------------------- scenario pieces
def register(c, rnd, s, lim, idx):
    """tree history that puts RC(s,lim) at idx, by the class c['hist']; other leaves by c['others']"""
    ops = []
    h = c.get("hist", "set")
    if h == "append":
        if idx == 0:
            pass
        elif idx <= 255:
            ops.append({"c": "regrange", "i": 0, "ids": [[I(7 + k), I(3)] for k in range(idx)]})
        else:
            ops.append({"c": "setraw", "i": idx - 1, "v": I(9)})
        ops.append({"c": "regnext", "s": s, "lim": lim})
    elif h == "range":
        ops.append({"c": "regrange", "i": max(idx - 1, 0), "ids": ([[I(11), I(2)]] if idx > 0 else []) + [[s, lim]] + ([[I(12), I(2)]] if idx < BIG - 1 else [])})
    elif h == "batch":
        ops.append({"c": "setraw", "i": 3, "v": I(5)})
        if idx in (3,):
            ops.append({"c": "regbatch", "i": idx, "ids": [[s, lim]], "rem": [3]})
        else:
            ops.append({"c": "reg", "i": idx, "s": s, "lim": lim})     # (batches with removals are C08's; keep the member write plain)
            ops.append({"c": "regbatch", "i": 4, "ids": [], "rem": [3]} if idx != 4 else {"c": "del", "i": 3})
    elif h == "swap-batch":
        # the slot is vacated and reassigned to the member in ONE batch call
        # (the byte-level batch entry point takes removal positions as single bytes: only positions <= 255)
        if idx <= 255:
            ops.append({"c": "setraw", "i": idx, "v": I(5)})
            ops.append({"c": "regbatch", "i": idx, "ids": [[s, lim]], "rem": [idx]})
        else:
            ops.append({"c": "setraw", "i": 7, "v": I(5)})
            ops.append({"c": "reg", "i": idx, "s": s, "lim": lim})
            ops.append({"c": "regbatch", "i": 7, "ids": [[I(12), I(2)]], "rem": [7]})
    elif h == "big-batch":
        # registered inside ONE batch of 2 500 leaves (long enough for any chunked write path of the storage layer)
        n = 2500
        st = max(0, min(idx - 1200, BIG - n))
        ids = [[I(100000 + k), I(3)] for k in range(n)]
        ids[idx - st] = [s, lim]
        ops.append({"c": "regrange", "i": st, "ids": ids})
    elif h == "reopen":
        # persistent location (the reset line asks for it): registered, then the node restarts
        ops.append({"c": "reg", "i": idx, "s": s, "lim": lim})
        ops.append({"c": "reopen"})
    else:
        ops.append({"c": "reg", "i": idx, "s": s, "lim": lim})
    if c.get("others") == "sparse":
        # other leaves arbitrary: 40 random leaves written AFTER the member (an append must find its slot)
        ops.append({"c": "fill", "n": 40, "seed": rnd.randrange(1 << 30), "avoid": idx})
    return ops


def prove_op(name, entry, s, idx, lim, mid, e, sig, **kw):
    op = {"c": "prove", "entry": entry, "s": s, "idx": idx, "lim": lim, "mid": mid, "e": e, "sig": sig, "name": name}
    op.update(kw)
    return op


def verify_all(name):
    return [{"c": "verify", "kind": "raw", "msg": name, "tag": "unmodified"},
            {"c": "verify", "kind": "stateful", "msg": name, "tag": "unmodified"},
            {"c": "verify", "kind": "roots", "msg": name, "roots": ["cur"], "tag": "unmodified"},
            {"c": "verify", "kind": "roots", "msg": name, "roots": ["rnd", "rnd", "cur"], "tag": "unmodified"},
            {"c": "verify", "kind": "roots", "msg": name, "roots": [], "tag": "unmodified"}]


def scen_c01(wd, rnd, n):
    cs, uncovered = pairwise(classes(wd)["PROVE"], n, rnd)
    sc = []
    for k, c in enumerate(cs):
        sc.append({"c": "reset", "persist": c.get("hist") == "reopen"})
        s, e = fv_label(c["s"], rnd), fv_label(c["e"], rnd)
        limv = lim_label(c["lim"])
        midv = {"0": 0, "1": 1, "lim-1": limv - 1}[c["mid"]]
        idx = idx_label(c["idx"], rnd)
        name = f"m{k}"
        sc += register(c, rnd, s, I(limv), idx)
        again = (k % 3 == 0)
        o1, o2 = [p for p in (5, 6, 9) if p != idx][:2]
        if again:
            sc += [{"c": "setraw", "i": o1, "v": I(21)}, {"c": "setraw", "i": o2, "v": I(22)}]
        sc.append(prove_op(name, c["entry"], s, idx, I(limv), I(midv), e, sig_label(c["sig"], rnd), cls=c))
        sc += verify_all(name)
        if again:
            # the tree moves on (two other members are removed in one batch, nothing else happens in between) and the
            # same member proves again
            sc += [{"c": "regbatch", "i": 0, "ids": [], "rem": sorted([o1, o2])}]
            sc.append(prove_op(name + "b", c["entry"] if c["entry"] != "vector" else "tree", s, idx, I(limv), I(midv), e,
                               sig_label(c["sig"], rnd), cls=dict(c, again=True)))
            sc += verify_all(name + "b")
    # one message with a signal above 1 MiB (signals are arbitrary byte strings)
    sc.append({"c": "reset"})
    s = {"k": "rnd", "s": rnd.randrange(1, 1 << 30)}
    sc.append({"c": "reg", "i": 2, "s": s, "lim": I(10)})
    sc.append(prove_op("huge", "tree", s, 2, I(10), I(3), {"k": "rnd", "s": 77}, {"len": (1 << 20) + 4097, "seed": 5}, cls={"sig": "1MiB+"}))
    sc += verify_all("huge")[1:3]
    return sc, len(cs) + 1, uncovered


FIELD_NO = {"root": 0, "e": 1, "x": 2, "y": 3, "nul": 4}
PROOF_BIT = {"first": 0, "last": 1023, "flags": 255, "mid1": 300, "mid2": 777}


def tamper_ops(name, t, siglen):
    """verification calls for one TAMPER class (abstract) on message `name`"""
    kind = t["kind"]
    base = {"c": "verify", "kind": kind, "msg": name, "tag": json.dumps(t, sort_keys=True)}
    if kind == "roots":
        base["roots"] = ["cur"]
    w = t["what"]
    if w == "field":
        return [dict(base, mods=[{"m": "field", "f": FIELD_NO[t["f"]], "how": t["how"]}])]
    if w == "sig":
        h = t["how"]
        m = {"flip": [{"m": "sigflip", "at": 0}], "trunc": [{"m": "sigtrunc", "n": 1, "fixlen": True}],
             "extend-fix": [{"m": "sigext", "n": 1, "fixlen": True}], "extend-nofix": [{"m": "sigext", "n": 3}],
             "len+1": [{"m": "siglen", "v": "+1"}], "len-1": [{"m": "siglen", "v": "-1"}], "len0": [{"m": "siglen", "v": "0"}],
             "len+2^32": [{"m": "siglen", "v": "+2^32"}], "len+2^63": [{"m": "siglen", "v": "+2^63"}]}[h]
        if siglen == 0 and h in ("flip", "trunc", "len-1", "len0"):
            return []
        return [dict(base, mods=m)]
    if w == "proofbit":
        return [dict(base, mods=[{"m": "proofbit", "bit": PROOF_BIT[t["bit"]]}])]
    # what = none: verifier-side changes
    ops = []
    tree, roots = t["tree"], t["roots"]
    pre, post = [], []
    if tree == "other-changed":
        pre = [{"c": "setraw", "i": 77, "v": I(123)}]
        post = [{"c": "del", "i": 77}]
    elif tree == "member-deleted":
        pre = [{"c": "del", "i": "MEMBER"}]
        post = [{"c": "RESTORE"}]
    elif tree == "other-changed-batch":
        pre = [{"c": "regbatch", "i": 77, "ids": [[I(123), I(2)]], "rem": []}]
        post = [{"c": "regbatch", "i": 0, "ids": [], "rem": [77]}]
    elif tree == "other-changed-range":
        pre = [{"c": "regrange", "i": 77, "ids": [[I(123), I(2)], [I(124), I(2)]]}]
        post = [{"c": "del", "i": 77}, {"c": "del", "i": 78}]
    elif tree == "member-deleted-batch":
        pre = [{"c": "DELBATCH"}]              # atomic_operation removing the member (positions <= 255), else delete_leaf
        post = [{"c": "RESTORE"}]
    elif tree == "member-overwritten-range":
        pre = [{"c": "OVERWRITE"}]             # set_leaves_from writes another identity over the member
        post = [{"c": "RESTORE"}]
    elif tree == "changed-restored":
        pre = [{"c": "setraw", "i": 78, "v": I(5)}, {"c": "del", "i": 78}]
    elif tree == "restarted":
        pre = [{"c": "reopen"}]                      # the verifier restarts on its persistent location: same tree
    elif tree == "restarted-member-deleted":
        pre = [{"c": "reopen"}, {"c": "del", "i": "MEMBER"}]
        post = [{"c": "RESTORE"}]
    if kind == "roots":
        base["roots"] = {"empty": [], "cur": ["cur"], "other": ["rnd"], "other+cur": ["rnd", "cur"], "stale": ["msg"],
                         "zero": ["zero"], "zeros": ["zero"] * 5, "zero+cur": ["zero", "cur"],
                         "straddle1": ["straddle1"], "straddle8": ["straddle8"], "straddle16": ["straddle16"], "straddle31": ["straddle31"]}[roots]
    if tree in ("member-deleted", "restarted-member-deleted", "member-deleted-batch", "member-overwritten-range") and (kind == "stateful" or (kind == "roots" and roots in ("cur", "zero+cur", "other+cur"))):
        base["must"] = "reject"       # the current root cannot be the message's any more
    return pre + [base] + post


def scen_c02(wd, rnd, n_msgs, n_tampers):
    ts = classes(wd)["TAMPER"]
    sc = []
    for k in range(n_msgs):
        sc.append({"c": "reset", "persist": True})    # a persistent location, so that the verifier can restart
        s = {"k": "rnd", "s": rnd.randrange(1, 1 << 30)}
        lim = I(rnd.choice([1, 100, 65536]))
        idx = rnd.choice([0, 5, (1 << 19) + 3, BIG - 1])
        siglen = rnd.choice([0, 11, 137])
        sig = {"len": siglen, "seed": rnd.randrange(1 << 30)}
        name = f"m{k}"
        sc.append({"c": "fill", "n": 10, "seed": rnd.randrange(1 << 30)})
        sc.append({"c": "reg", "i": idx, "s": s, "lim": lim})
        sc.append(prove_op(name, rnd.choice(["tree", "witness"]), s, idx, lim, I(0), {"k": "rnd", "s": rnd.randrange(1, 1 << 30)}, sig))
        sc += verify_all(name)
        if n_tampers >= len(ts):
            pick = ts
        else:
            # the classes are dealt out over the messages without replacement, so that one run covers every class
            if k == 0:
                deck = list(ts)
                rnd.shuffle(deck)
            share = -(-len(deck) // n_msgs)
            pick = deck[k * share:(k + 1) * share]
            pick += rnd.sample(ts, max(0, n_tampers - len(pick)))
        for t in pick:
            for op in tamper_ops(name, t, siglen):
                if op.get("i") == "MEMBER":
                    op = dict(op, i=idx)
                if op.get("c") == "RESTORE":
                    op = {"c": "reg", "i": idx, "s": s, "lim": lim}
                if op.get("c") == "DELBATCH":
                    op = {"c": "regbatch", "i": 0, "ids": [], "rem": [idx]} if idx <= 255 else {"c": "del", "i": idx}
                if op.get("c") == "OVERWRITE":
                    op = {"c": "regrange", "i": idx, "ids": [[I(125), I(2)]]}
                sc.append(op)
    return sc


def scen_c13(wd, rnd, quick):
    sc = [{"c": "reset"}]
    for k, siglen in enumerate([11, 137] if quick else [0, 11, 137, 300]):
        s = {"k": "rnd", "s": rnd.randrange(1, 1 << 30)}
        idx = [5, (1 << 19) + 3, 0, BIG - 1][k % 4]
        name = f"m{k}"
        sc.append({"c": "reg", "i": idx, "s": s, "lim": I(100)})
        # the external nullifier is the one public value the prover chooses freely: 0 (whose only alias is the modulus itself),
        # 1 and p-1 are boundary cases of the "one encoding" clause (added after C02-m9: `<=` instead of `<` in the canonical check)
        ext = [I(7), I(0), I(1), {"k": "pm", "v": 1}][k % 4]
        sc.append(prove_op(name, "tree", s, idx, I(100), I(1), ext, {"len": siglen, "seed": rnd.randrange(1 << 30)}))
        sc += verify_all(name)
        total = 296 + siglen
        lens = list(range(0, total + 1)) if not quick else sorted(set(list(range(0, 40)) + list(range(120, 136)) + list(range(280, total + 1)) + rnd.sample(range(total), 30)))
        for kind in ("raw", "stateful", "roots"):
            for n in lens:
                if kind == "raw" and n > 288:
                    continue
                sc.append(dict({"c": "verify", "kind": kind, "msg": name, "mods": [{"m": "trunc", "len": n}], "tag": f"trunc{n}"},
                               **({"roots": ["cur"]} if kind == "roots" else {})))
            for v in ("0", "-1", "+1", "2^31", "2^32", "2^63", "max", "max-295", "+2^32", "+2^40", "+2^63"):
                if kind != "raw":
                    sc.append(dict({"c": "verify", "kind": kind, "msg": name, "mods": [{"m": "siglen", "v": v}], "tag": f"siglen{v}"},
                                   **({"roots": ["cur"]} if kind == "roots" else {})))
            for f in range(5):
                for how in ("addp", "add2p", "max"):
                    sc.append(dict({"c": "verify", "kind": kind, "msg": name, "mods": [{"m": "field", "f": f, "how": how}], "tag": f"alias{f}{how}"},
                                   **({"roots": ["cur"]} if kind == "roots" else {})))
            for (a, z) in ((0, 128), (128, 288), (0, total), (288, 296)):
                sc.append(dict({"c": "verify", "kind": kind, "msg": name, "mods": [{"m": "randregion", "from": a, "to": z, "seed": rnd.randrange(1 << 30)}],
                                "tag": f"rand{a}-{z}"}, **({"roots": ["cur"]} if kind == "roots" else {})))
            # random content in random regions (volume)
            for j in range(12 if quick else 500):
                a = rnd.randrange(total)
                z = min(total, a + rnd.choice([1, 1, 2, 8, 32, 33, 100]))
                sc.append(dict({"c": "verify", "kind": kind, "msg": name, "mods": [{"m": "randregion", "from": a, "to": z, "seed": rnd.randrange(1 << 30)}],
                                "tag": f"rnd{j}"}, **({"roots": ["cur"]} if kind == "roots" else {})))
            sc.append(dict({"c": "verify", "kind": kind, "msg": name, "mods": [{"m": "empty"}], "tag": "empty"}, **({"roots": []} if kind == "roots" else {})))
            sc.append(dict({"c": "verify", "kind": kind, "msg": name, "mods": [{"m": "append", "n": 5}], "tag": "trailing"}, **({"roots": ["cur"]} if kind == "roots" else {})))
        # malformed root lists
        sc.append({"c": "verify", "kind": "roots", "msg": name, "roots": ["cur"], "roots_extra": 7, "tag": "roots+partial"})
        sc.append({"c": "verify", "kind": "roots", "msg": name, "roots": [], "roots_extra": 31, "tag": "roots-only-partial"})
        # recovery entry point on arbitrary bytes
        for n in ([0, 1, 10, 127, 128, 129, 159, 160, 287, 288] if quick else range(0, 289, 1)):
            sc.append({"c": "recover", "a": name, "b": name, "mods_a": [{"m": "trunc", "len": n}], "tag": f"ra{n}"})
            sc.append({"c": "recover", "a": name, "b": name, "mods_b": [{"m": "trunc", "len": n}], "tag": f"rb{n}"})
        sc.append({"c": "recover", "a": name, "b": name, "mods_a": [{"m": "randregion", "from": 0, "to": 288, "seed": 5}], "tag": "rrand"})
    return sc


def unsat_request(cls, entry, rnd, k):
    """a proving request of UNSAT class cls; returns (pre-ops, prove op) or None if the class does not apply to the entry"""
    s = {"k": "rnd", "s": 1000 + k}
    idx = rnd.choice([3, (1 << 19) + 9])
    lim, mid = 100, 5
    mut = {}
    big = None
    if cls == "mid=lim":
        mid = lim
    elif cls == "mid=lim+1":
        mid = lim + 1
    elif cls == "mid=2^16":
        lim, mid = 65536, 65536
    elif cls == "mid>=2^16,biglim":
        lim, mid = 200000, 70000
    elif cls == "lim=mid+2^16+1":
        lim, mid = 5 + 65536 + 1, 5
    elif cls == "lim=2^17":
        lim, mid = 1 << 17, 5
    elif cls == "lim=0":
        lim, mid = 0, 0
    elif cls == "mid=p-1":
        big = {"k": "pm", "v": 1}
    elif cls in ("idx=cap", "idx=2^32", "idx=2^63"):
        if entry != "tree":
            return None
        idx = {"idx=cap": BIG, "idx=2^32": 1 << 32, "idx=2^63": 1 << 63}[cls]
    elif cls in ("path19", "path21", "path0"):
        if entry == "tree":
            return None
        mut["pathlen"] = {"path19": 19, "path21": 21, "path0": 0}[cls]
    elif cls == "bits19":
        if entry == "tree":
            return None
        mut["bitslen"] = 19
    elif cls in ("bit=2", "bit=255"):
        if entry == "tree":
            return None
        mut["bit"] = [rnd.randrange(20), 2 if cls == "bit=2" else 255]
    elif cls in ("wtrunc1", "wtrunc40", "wappend1"):
        if entry == "tree":
            return None
        mut[{"wtrunc1": "wtrunc", "wtrunc40": "wtrunc", "wappend1": "wappend"}[cls]] = {"wtrunc1": 1, "wtrunc40": 40, "wappend1": 1}[cls]
    elif cls.startswith("widxlen"):
        if entry == "tree":
            return None
        mut["widxlen"] = cls[len("widxlen"):]
    elif cls.startswith("reqlen"):
        if entry != "tree":
            return None
        mut["reqlen"] = {"reqlen0": 0, "reqlen31": 31, "reqlen143": 143, "reqlen-1": 144 + 11 - 1}[cls]
    elif cls.startswith("siglen"):
        if entry != "tree":
            return None
        mut["siglen"] = {"siglen+1": 12, "siglen=2^32": 1 << 32, "siglen=max": (1 << 64) - 1}[cls]
    midd = big if big else I(mid)
    pre = [{"c": "reg", "i": idx, "s": s, "lim": I(lim)}] if idx < BIG else []
    op = prove_op(f"u{k}", entry, s, idx, I(lim), midd, I(3), {"len": 11, "seed": 4}, mut=mut, cls=cls)
    return pre, op


def scen_c12(wd, rnd, quick):
    us = classes(wd)["UNSAT"]
    rnd.shuffle(us)
    # (the very first proof of the process is made by ANOTHER instance with other circuit resources of the same size:
    #  whatever is decoded or derived once per process must not leak into the instance under observation)
    sc = [{"c": "reset"}, {"c": "foreign"}]
    k = 0
    seen = set()
    for u in us:
        if quick and (u["cls"] in seen) and rnd.random() < 0.55:
            continue
        r = unsat_request(u["cls"], u["entry"], rnd, k)
        if r is None:
            continue
        seen.add(u["cls"])
        pre, op = r
        sc += pre
        sc.append(op)
        sc += [{"c": "verify", "kind": "raw", "msg": op["name"], "tag": "after-prove"},
               {"c": "verify", "kind": "stateful", "msg": op["name"], "tag": "after-prove"}]
        k += 1
    # satisfiable requests of a NON-member through the tree entry point (empty position, somebody else's position,
    # registered with another limit, removed member): whatever the prover answers, success => raw verification accepts
    other = {"k": "rnd", "s": 6100}
    me = {"k": "rnd", "s": 6200}
    sc += [{"c": "reg", "i": 40, "s": other, "lim": I(10)}, {"c": "reg", "i": 41, "s": me, "lim": I(20)},
           {"c": "reg", "i": 42, "s": me, "lim": I(10)}, {"c": "del", "i": 42}]
    for j, idx in enumerate([39, 40, 41, 42]):
        op = prove_op(f"q{j}", "tree", me, idx, I(10), I(2), I(3), {"len": 5, "seed": j}, cls="non-member-tree")
        sc += [op, {"c": "verify", "kind": "raw", "msg": op["name"], "tag": "non-member"}]
    # satisfiable but non-member requests through the caller-supplied-witness entry points: only "no crash and
    # raw verification accepts" is demanded
    for j in range(2 if quick else 8):
        s = {"k": "rnd", "s": 5000 + j}
        op = prove_op(f"n{j}", rnd.choice(["witness", "raw", "vector"]), s, 9, I(10), I(2), I(3), {"len": 5, "seed": j},
                      mut={"path": {"seed": 77 + j, "bits": rnd.choice(["rnd", "zero", "one", "alt"])}})
        sc.append(op)
        sc.append({"c": "verify", "kind": "raw", "msg": op["name"], "tag": "non-member"})
    # another instance of the process, configured with other circuit resources of the same size, proves in between:
    # the requests of a registered member on THIS instance must still end in messages that verify
    m2 = {"k": "rnd", "s": 6300}
    sc.append({"c": "reg", "i": 50, "s": m2, "lim": I(10)})
    for j, entry in enumerate(["tree", "witness", "tree"] if quick else ["tree", "witness", "raw", "vector", "tree"]):
        sc.append({"c": "foreign"})
        op = prove_op(f"f{j}", entry, m2, 50, I(10), I(j), I(3), {"len": 5, "seed": j}, cls="after-foreign")
        sc += [op, {"c": "verify", "kind": "raw", "msg": op["name"], "tag": "after-prove"},
               {"c": "verify", "kind": "stateful", "msg": op["name"], "tag": "after-prove"}]
    return sc, k


def scen_c04(rnd, n_values, n_proofs):
    sc = [{"c": "reset"}]
    fcls = ["0", "1", "p-1", "rnd", "rnd", "rnd"]
    for k in range(n_values + n_proofs):
        s, e = fv_label(rnd.choice(fcls), rnd), fv_label(rnd.choice(fcls), rnd)
        lim = rnd.choice([1, 2, 100, 65535, 65536])
        mid = rnd.choice([0, lim - 1, rnd.randrange(lim)])
        bits = rnd.choice(["rnd", "rnd", "zero", "one", "alt"])
        pv = {"seed": rnd.randrange(1 << 30), "bits": bits}
        if rnd.random() < 0.3:
            pv["single"] = k % 20
        # boundary values among the path elements: all 0 / 1 / p-1, or 0 at some levels (not only the leaf level)
        if k % 9 == 4:
            pv["all"] = ["zero", "one", "pm1"][(k // 9) % 3]
        elif k % 9 == 7:
            pv["zero_at"] = sorted({rnd.randrange(20), rnd.randrange(1, 20), k % 20})
        entry = "values" if k < n_values else rnd.choice(["witness", "raw", "vector"])
        sc.append(prove_op(f"v{k}", entry, s, 0, I(lim), I(mid), e, {"len": rnd.choice([0, 1, 136, 50]), "seed": k}, mut={"path": pv}, c04=True))
    # chains of consecutive calls that differ in exactly ONE input (a value memoised under an incomplete key shows here)
    base = dict(s=I(11), lim=100, mid=7, e=I(5), sig={"len": 3, "seed": 1}, path={"seed": 4242, "bits": "rnd"})
    k0 = n_values + n_proofs
    variants = [dict(), dict(lim=101), dict(), dict(mid=8), dict(), dict(e=I(6)), dict(), dict(sig={"len": 3, "seed": 2}), dict(),
                dict(s=I(12)), dict(), dict(path={"seed": 4243, "bits": "rnd"}), dict(), dict(path={"seed": 4242, "bits": "alt"}), dict(),
                dict(lim=65536), dict(mid=0), dict(mid=99, lim=100), dict(e={"k": "pm", "v": 1})]
    for j, v in enumerate(variants):
        c = dict(base, **v)
        sc.append(prove_op(f"w{j}", "values", c["s"], 0, I(c["lim"]), I(c["mid"]), c["e"], c["sig"], mut={"path": c["path"]}, c04=True))
    # and through the tree entry point (path from the tree)
    for k, idx in enumerate([0, 1, (1 << 19) - 1, 1 << 19, BIG - 1][:max(2, n_proofs // 3)]):
        s = {"k": "rnd", "s": 900 + k}
        sc.append({"c": "reg", "i": idx, "s": s, "lim": I(7)})
        sc.append(prove_op(f"t{k}", "tree", s, idx, I(7), I(6), {"k": "pm", "v": 1}, {"len": 9, "seed": k}, c04=True))
        # the same entry point with a witness whose commitment is NOT the leaf at that position (other limit, other secret,
        # empty position): the circuit accepts it, and the published root must still be the fold of THAT commitment
        if k < 2:
            sc.append(prove_op(f"t{k}l", "tree", s, idx, I(9), I(6), {"k": "pm", "v": 1}, {"len": 9, "seed": k}, c04=True))
            sc.append(prove_op(f"t{k}s", "tree", {"k": "rnd", "s": 950 + k}, idx, I(7), I(6), {"k": "pm", "v": 1}, {"len": 9, "seed": k}, c04=True))
            sc.append(prove_op(f"t{k}e", "tree", s, idx + 2, I(7), I(6), {"k": "pm", "v": 1}, {"len": 9, "seed": k}, c04=True))
    return sc


def scen_c03(rnd, quick):
    sc = [{"c": "reset"}]
    F = ["0", "1", "p-1", "rnd"]
    k = 0

    def craft(name, s, e, mid, sig, **kw):
        return dict({"c": "craft", "name": name, "s": s, "e": e, "mid": mid, "sig": sig}, **kw)
    combos = [(a, b, c) for a in F for b in F for c in ["0", "1", "rnd16"]]
    if quick:
        combos = rnd.sample(combos, 24)
    for (sl, el, ml) in combos:
        s, e = fv_label(sl, rnd), fv_label(el, rnd)
        mid = {"0": I(0), "1": I(1), "rnd16": I(rnd.randrange(2, 65536))}[ml]
        e2 = rnd.choice([fv_label("rnd", rnd), {"k": "add", "x": e, "y": {"k": "pow2", "e": 248, "d": 0}},
                         {"k": "add", "x": e, "y": I(1)}, {"k": "add", "x": e, "y": {"k": "pow2", "e": 252, "d": 0}}])
        mid2 = I((mid["v"] + 1) % 65536)
        s2 = fv_label("rnd", rnd)
        a, b, c, d, f, g = (f"a{k}", f"b{k}", f"c{k}", f"d{k}", f"f{k}", f"g{k}")
        sc += [craft(a, s, e, mid, {"len": 5, "seed": 2 * k}), craft(b, s, e, mid, {"len": 9, "seed": 2 * k + 1}),
               craft(c, s, e2, mid, {"len": 5, "seed": 2 * k}),          # other external nullifier
               craft(d, s, e, mid2, {"len": 7, "seed": 3 * k}),          # other message id
               craft(f, s2, e, mid, {"len": 8, "seed": 5 * k}),          # other secret
               craft(g, s, e, mid, {"len": 5, "seed": 2 * k}, y=fv_label("rnd", rnd))]   # same x as a, other y (crafted)
        for ws in (False, True):
            sc += [{"c": "recover", "a": a, "b": b, "with_signal": ws, "tag": "same-line"},
                   {"c": "recover", "a": b, "b": a, "with_signal": ws, "tag": "same-line-swapped"}]
        sc += [{"c": "recover", "a": a, "b": c, "tag": "other-epoch"},
               {"c": "recover", "a": a, "b": d, "tag": "other-mid"},
               {"c": "recover", "a": a, "b": f, "tag": "other-secret"},
               {"c": "recover", "a": a, "b": a, "tag": "identical"},
               {"c": "recover", "a": a, "b": g, "tag": "same-x-other-y"}]
        # crafted x in {0, p-1}
        sc += [craft(f"x{k}", s, e, mid, {"len": 1, "seed": 1}, x=I(0)), craft(f"y{k}", s, e, mid, {"len": 1, "seed": 1}, x={"k": "pm", "v": 1}),
               {"c": "recover", "a": f"x{k}", "b": f"y{k}", "tag": "x=0,x=p-1"}, {"c": "recover", "a": a, "b": f"x{k}", "tag": "x=0"}]
        k += 1
    # a few with real proofs through the prover (nullifier equality on generated messages)
    for j in range(2 if quick else 10):
        s = {"k": "rnd", "s": 7000 + j}
        e = {"k": "rnd", "s": 8000 + j}
        sc.append({"c": "reg", "i": 10 + j, "s": s, "lim": I(100)})
        sc.append(prove_op(f"p{j}a", "tree", s, 10 + j, I(100), I(3), e, {"len": 4, "seed": j}))
        sc.append(prove_op(f"p{j}b", "witness", s, 10 + j, I(100), I(3), e, {"len": 6, "seed": 100 + j}))
        sc.append(prove_op(f"p{j}c", "tree", s, 10 + j, I(100), I(4), e, {"len": 6, "seed": 100 + j}))
        sc += [{"c": "recover", "a": f"p{j}a", "b": f"p{j}b", "tag": "proved-same-line"},
               {"c": "recover", "a": f"p{j}a", "b": f"p{j}b", "with_signal": True, "tag": "proved-same-line+signal"},
               {"c": "recover", "a": f"p{j}a", "b": f"p{j}c", "tag": "proved-other-mid"}]
    return sc, k


def execute(binary, wd, name, scenario):
    sp = os.path.join(wd, f"{name}.scen.ndjson")
    tp = os.path.join(wd, f"{name}.trace.ndjson")
    tb = os.path.join(wd, f"{name}.tab.json")
    write_ndjson(sp, scenario)
    rc, o = run([binary, "proto", "--scenario", sp, "--out", tp, "--tab", tb], timeout=7200)
    if rc != 0:
        raise ToolError(f"harness failed ({rc}):\n{o[-3000:]}")
    return tp, tb


def judge(prop, wd, name, tp, tb, kf_names):
    ctl = os.path.join(wd, f"{name}.ctl.json")
    with open(ctl, "w") as f:
        json.dump({"prop": prop, "kf": kf_names}, f)
    res = tlc_judge("Trace_Proto", "Trace_Proto.cfg", {"TRACE": tp, "TABLE": tb, "CTL": ctl}, f"judge-{prop}-{name}", timeout=3000, xmx="8g")
    if res["tool_error"]:
        raise ToolError(f"judge failed on {tp}:\n{res['tool_error']}")
    return res


def slim(ev):
    return {k: v for k, v in ev.items() if k not in ("bytes", "msg", "bytes_a", "bytes_b", "out", "path", "roots", "treeroot")}


def run_property(prop, tier, out):
    wd = workdir(f"{prop}-{tier}")
    rnd = random.Random(seed() * 15485863 + sum(map(ord, prop)))
    quick = tier == "quick"
    if prop in ("C01", "C02", "C03", "C12"):
        model_check(tier, wd, out)
    binary, _ = build_harness("default")
    kfs = kf_for(prop)
    kf_names = [f["name"] for f in kfs]
    kf_desc = {f["name"]: f["what"] for f in kfs}
    if prop == "C01":
        sc, n, unc = scen_c01(wd, rnd, 30 if quick else 400)
        out.notes.append(f"{n} proving cases chosen as a seeded pairwise cover of the {len(classes(wd)['PROVE'])} abstract Prove "
                         f"classes enumerated by TLC (ProtoGen.tla); {unc} value pairs left uncovered")
    elif prop == "C02":
        sc = scen_c02(wd, rnd, 4 if quick else 30, 45 if quick else 10 ** 6)
        out.notes.append(f"{len(classes(wd)['TAMPER'])} abstract Tamper x Verify classes enumerated by TLC")
    elif prop == "C13":
        sc = scen_c13(wd, rnd, quick)
    elif prop == "C12":
        sc, n = scen_c12(wd, rnd, quick)
        out.notes.append(f"{n} unsatisfiable/malformed request cases from the {len(classes(wd)['UNSAT'])} (class, entry point) pairs enumerated by TLC")
    elif prop == "C04":
        sc = scen_c04(rnd, 250 if quick else 4000, 12 if quick else 120)
    elif prop == "C03":
        sc, n = scen_c03(rnd, quick)
        out.notes.append(f"{n} (secret, external nullifier, message id) class combinations x 13 recovery shapes")
    else:
        raise ToolError(prop)
    tp, tb = execute(binary, wd, "main", sc)
    rows = read_ndjson(tp)
    res = judge(prop, wd, "main", tp, tb, kf_names)
    if res["depth"] is None or res["depth"] - 1 != len(rows):
        raise ToolError(f"judge consumed {res['depth']} of {len(rows)} lines")
    for kname, line in res["kf"]:
        out.known(kname, kf_desc.get(kname, ""))
    for line in res["dev"]:
        ev = rows[line - 1]
        k = ev["k"]
        start = k
        while start > 0 and sc[start]["c"] != "reset":
            start -= 1
        desc = f"{json.dumps(slim(ev))[:400]} is not allowed by the protocol specification (trace line {line}): {res['why'].get(line, '')}"
        out.violation(desc, {"kind": "proto", "prop": prop, "scenario": sc[start:k + 1], "event": slim(ev)})
    judged = [r for r in rows if r["t"] in ("prove", "verify", "recover", "craft")]
    kinds = {}
    distinct = set()
    for r in judged:
        key = (r["t"], r.get("entry") or r.get("kind") or "", r.get("res"), r.get("idx"), r.get("midv"), r.get("limv"), r.get("siglen"),
               json.dumps([r.get("mods"), r.get("mut"), r.get("tag"), r.get("a"), r.get("b")], sort_keys=True))
        distinct.add(key)
        kinds[(r["t"], r.get("res"))] = kinds.get((r["t"], r.get("res")), 0) + 1
    for r in judged[:3] + [r for r in judged if r["t"] == "verify" and r.get("mods")][:2]:
        out.sample(slim(r))
    if prop == "C01":
        member = sum(1 for r in rows if r["t"] == "prove" and r.get("leaf") is not None and r.get("leaf") == r.get("out", {}).get("rc"))
        provs = sum(1 for r in rows if r["t"] == "prove")
        out.add(member_cases=member)
        if member < provs:
            # (on the unchanged tree every case is a member case; a tree that does not hold what was written is C06's to report)
            out.notes.append(f"only {member} of {provs} proving cases found the member's commitment at its position; the others are not judged")
            if member < provs // 2:
                raise ToolError(f"scenario error: only {member} of {provs} proving cases found the member's commitment at its position")
    # negative control: flip one recorded verdict / result and demand a rejection
    # (skipped when deviations were reported: the judge demonstrably rejects, and the violation must not be masked)
    neg = negative_control(prop, wd, rows, tb, kf_names) if not res["dev"] else True
    if neg is False:
        raise ToolError("negative control: the protocol judge accepted a corrupted trace (binding broken)")
    extra = {}
    if prop in ("C01", "C02", "C03"):
        # the protocol as a system: behaviours of Relay.tla replayed through the library, validated by Trace_Relay.tla,
        # charged with this property's clauses only
        import relay
        extra = relay.run_relay(prop, tier, out, binary)
        if prop == "C03":
            # ... and the repository's own relay application (rln-cli example), unmodified, validated against the same design
            import relaycli
            extra.update(relaycli.run_cli(prop, tier, out))
    out.add(**extra)
    out.add(evaluations=len(judged), distinct_nontrivial=len(distinct), traces_validated_against_impl=1 if not res["dev"] else 0,
            proofs_generated=sum(1 for r in rows if r["t"] == "prove" and r.get("res") == "ok" and r.get("entry") != "values"),
            outcome_histogram={f"{a}:{b}": n for (a, b), n in sorted(kinds.items(), key=str)},
            negative_control_rejected=bool(neg),
            rule="one evaluation = one recorded prove / verify / recover call on the real RLN instance (depth 20, real Groth16), "
                 "judged against Trace_Proto.tla; distinct = distinct (call kind, entry point or verifier, outcome, modification class)",
            checker_cmd="tlc Trace_Proto.tla on traces recorded by zkexec proto")


def negative_control(prop, wd, rows, tb, kf_names):
    rows = [dict(r) for r in rows]
    target = None
    for i, r in enumerate(rows):
        if prop in ("C01", "C02", "C12", "C13") and r["t"] == "verify" and r.get("res") == "true":
            rows[i]["res"] = "false"
            target = i
            break
        if prop == "C04" and r["t"] == "prove" and r.get("res") == "ok" and "fields" in r:
            f = dict(r["fields"])
            f["nul"] = f["y"]
            rows[i]["fields"] = f
            target = i
            break
        if prop == "C03" and r["t"] == "recover" and r.get("res") == "ok" and len(r.get("out", [])) == 32 and r.get("tag") in ("same-line", "proved-same-line"):
            o = list(r["out"])
            o[0] ^= 1
            rows[i]["out"] = o
            target = i
            break
    if target is None:
        return None
    cp = os.path.join(wd, "neg.trace.ndjson")
    write_ndjson(cp, rows[:target + 1])
    res = judge(prop, wd, "neg", cp, tb, kf_names)
    return (target + 1) in set(res["dev"])
