"""Tree group (C06, C07, C08, C15): TLC model checking of Tree.tla, scenario generation from TLC
(exhaustive edges + simulation), execution on the real backends, judging with Trace_Tree.tla."""
import json
import os
import random
import re
from collections import defaultdict, deque

from common import (SpecViolation, SPEC, WORK, ToolError, build_harness, kf_for, read_ndjson, require_mc_ok, run, seed,
                    tlc_judge, tlc_mc, workdir, write_ndjson)

ALL_OPS = ["set", "delete", "append", "range", "override"]      # trait level; "init" exists only on the RLN surface
RLN_OPS = ALL_OPS + ["init"]
ALPHABET = {
    "C06": ["set", "delete", "append", "range"],
    "C08": ALL_OPS,
    "C15": ALL_OPS,
    "C07": ALL_OPS,
}


def tla_set(xs):
    return "{" + ", ".join(json.dumps(x) if isinstance(x, str) else str(x) for x in xs) + "}"


def write_cfg(path, depth, vals, max_batch, max_rem, ops, emit=False, hist=0, invariants=(), constraint=None):
    with open(path, "w") as f:
        f.write("SPECIFICATION Spec\nCONSTANTS\n")
        f.write(f"  Depth = {depth}\n  Vals = {tla_set(vals)}\n  MaxBatch = {max_batch}\n  MaxRem = {max_rem}\n")
        f.write(f"  Ops = {tla_set(ops)}\n  Emit = {'TRUE' if emit else 'FALSE'}\n  HistLen = {hist}\n")
        if invariants:
            f.write("INVARIANTS " + " ".join(invariants) + "\n")
        if constraint:
            f.write(f"CONSTRAINT {constraint}\n")
        f.write("CHECK_DEADLOCK FALSE\n")


INVS = ["TypeOK", "EmptiesOK", "ProofOK", "BatchIsSequence", "InitIsFreshThenWrite", "RangeIsSequence",
        "RejectUnchanged"]
ACTIONS = ["Set", "Delete", "AppendLeaf", "Range", "Override", "InitLeaves"]
MC_OPS = ["set", "delete", "append", "range", "override", "init"]


def model_check(tier, wd, out):
    """TLC on the ideal tree: all listed statements as invariants, exhaustive within the constants."""
    cfg = os.path.join(wd, "MC_Tree.cfg")
    runs = [dict(depth=2, vals=[0, 1, 2], max_batch=2, max_rem=5), dict(depth=1, vals=[0, 1, 2], max_batch=2, max_rem=3)]
    if tier == "thorough":
        runs.append(dict(depth=3, vals=[0, 1], max_batch=3, max_rem=2))
    tot_states = tot_trans = 0
    for r in runs:
        write_cfg(cfg, r["depth"], r["vals"], r["max_batch"], r["max_rem"], MC_OPS, invariants=INVS)
        res = tlc_mc("Tree", cfg, f"mc-tree-{out.prop}", workers=8, timeout=2400)
        require_mc_ok(res, f"Tree.tla depth {r['depth']}", must_take=ACTIONS)
        tot_states += res["distinct"]
        tot_trans += res["generated"]
        out.notes.append(f"TLC Tree.tla Depth={r['depth']} Vals={r['vals']} MaxBatch={r['max_batch']} MaxRem={r['max_rem']}: "
                         f"{res['distinct']} distinct states, {res['generated']} transitions, invariants {INVS} hold, "
                         f"every action taken ({res['actions']})")
    if out.prop in ("C06", "C08"):
        tot_states += refinement_check(tier, wd, out)
    if out.prop in ("C06", "C07"):
        tot_states += pm_refinement_check(tier, wd, out)
    out.add(states=tot_states, transitions=tot_trans)


def refinement_check(tier, wd, out):
    """TreeImpl.tla: the node-level algorithms of the two in-memory backends (dense array / sparse map re-hash passes,
    transcribed from the code) refine the ideal tree; the two known faulty re-hash passes must be refuted by TLC."""
    def cfg(name, variant, d, vals, mb, mr):
        p = os.path.join(wd, name + ".cfg")
        with open(p, "w") as f:
            f.write(f"SPECIFICATION Spec\nCONSTANTS\n  Depth = {d}\n  Vals = {{{', '.join(map(str, vals))}}}\n  MaxBatch = {mb}\n  MaxRem = {mr}\n"
                    f"  Variant = \"{variant}\"\nINVARIANTS Consistent MarkOK ResultOK\nCHECK_DEADLOCK FALSE\n")
        return p
    quick = tier == "quick"
    runs = [(2, [0, 1], 2, 1)] if quick else [(2, [0, 1, 2], 2, 2), (3, [0, 1], 2, 0)]   # (depth 3 without removals: 2.6e5 states, 4e7 transitions)
    states = 0
    for d, vals, mb, mr in runs:
        res = tlc_mc("TreeImpl", cfg(f"MC_TreeImpl_d{d}", "none", d, vals, mb, mr), f"mc-treeimpl-{out.prop}", workers=8, timeout=3000, coverage=False)
        require_mc_ok(res, f"TreeImpl.tla depth {d}")
        states += res["distinct"]
        out.notes.append(f"TLC TreeImpl.tla depth {d} Vals={vals} MaxBatch={mb} MaxRem={mr}: the transcribed full (dense array) and optimal "
                         f"(sparse map) update algorithms refine TreeOps - Consistent, MarkOK, ResultOK hold in {res['distinct']} distinct states "
                         f"({res['generated']} transitions)")
    for variant in ("stale-right-half", "first-plus-count"):
        res = tlc_mc("TreeImpl", cfg(f"MC_TreeImpl_{variant}", variant, 2, [0, 1], 2, 1), f"mc-treeimpl-{out.prop}-neg", workers=2, timeout=900, coverage=False)
        if "Invariant Consistent is violated" not in res["out"]:
            raise ToolError(f"TreeImpl.tla: the faulty re-hash pass '{variant}' was not refuted (vacuous refinement check)")
    out.notes.append("TreeImpl.tla: the two faulty re-hash passes (defect repaired by fix 108de92; seeded change C07-m3) are refuted by TLC")
    return states


PM_INVS = "Consistent MarkOK ProofOK ResultOK KeysInjective LoadedEqualsLive BatchWriteSetOK"


def pm_refinement_check(tier, wd, out):
    """TreePm.tla: the node algorithms of the persistent backend (external crate + adapter) refine the ideal tree, the
    faulty variants are refuted; then the REAL store is compared with the model's, node by node, along recorded histories
    (Trace_TreePm.tla = TreePm's actions + the logged fields, model state carried through the whole trace)."""
    def cfg(name, variant, d, vals, mb, spec="Spec", extra=""):
        p = os.path.join(wd, name + ".cfg")
        with open(p, "w") as f:
            f.write(f"SPECIFICATION {spec}\nCONSTANTS\n  Depth = {d}\n  Vals = {{{', '.join(map(str, vals))}}}\n  MaxBatch = {mb}\n"
                    f"  Variant = \"{variant}\"\nINVARIANTS {PM_INVS if spec == 'Spec' else PM_INVS.replace('KeysInjective ', '')}\n{extra}CHECK_DEADLOCK FALSE\n")
        return p
    quick = tier == "quick"
    states = 0
    runs = [(2, [0, 1, 2], 3)] + ([] if quick else [(3, [0, 1], 2)])
    for d, vals, mb in runs:
        res = tlc_mc("TreePm", cfg(f"MC_TreePm_d{d}", "none", d, vals, mb), f"mc-treepm-{out.prop}-{d}", workers=8, timeout=3000)
        require_mc_ok(res, f"TreePm.tla depth {d}", must_take=["Apply", "Override", "Reload"])
        states += res["distinct"]
        out.notes.append(f"TLC TreePm.tla depth {d} Vals={vals} MaxBatch={mb}: the transcribed node algorithms of the persistent backend "
                         f"(set / recalculate_from, delete, batch_insert = fill_nodes + batch_recalculate + put_batch, load; adapter flags and dispatch) "
                         f"refine TreeOps - {PM_INVS} hold in {res['distinct']} distinct states ({res['generated']} transitions); a reload is invisible")
    for variant, inv in (("pairing-without-index", "KeysInjective"), ("root-inside-if", "Consistent"), ("recalc-left-only", "Consistent"),
                         ("kf-override", "Consistent")):
        res = tlc_mc("TreePm", cfg(f"MC_TreePm_{variant}", variant, 2, [0, 1], 2), f"mc-treepm-{out.prop}-neg", workers=2, timeout=900, coverage=False)
        if not re.search(rf"Invariant ({inv}|MarkOK|BatchWriteSetOK|ProofOK) is violated|The invariant of {inv} is equal to FALSE", res["out"]):
            raise ToolError(f"TreePm.tla: the faulty variant '{variant}' was not refuted (vacuous refinement check):\n" + res["out"][-1500:])
    out.notes.append("TreePm.tla: the faulty variants (colliding keys, root field assigned only when the batch grows the tree, batch re-hash trusting the "
                     "stored right child) and the adapter's batch-with-removals path (known finding pm-override-batch) are refuted by TLC")
    # ---- the real store against the model
    binary, _ = build_harness("default")
    plan = [(2, 60, 25), (3, 40, 30), (5, 12, 40)] if quick else [(2, 300, 30), (3, 200, 40), (5, 60, 60), (7, 10, 80)]
    lines = layout = 0
    for d, count, ln in plan:
        tp = os.path.join(wd, f"pmnodes-d{d}.ndjson")
        tb = os.path.join(wd, f"pmnodes-d{d}.table.json")
        rc, o = run([binary, "pmnodes", "--seed", str(seed()), "--depth", str(d), "--count", str(count), "--len", str(ln), "--out", tp, "--table", tb], timeout=1800)
        if rc != 0:
            raise ToolError("pmnodes recorder failed:\n" + o[-1500:])
        rows = read_ndjson(tp)
        c = cfg(f"Trace_TreePm_d{d}", "none", d, [0], 0, spec="TSpec", extra="POSTCONDITION Accepted\n")
        res = tlc_judge("Trace_TreePm", c, {"TRACE": tp, "TABLE": tb}, f"judge-pmnodes-{out.prop}-{d}", timeout=3000)
        viol = re.search(r"Error: Invariant (\w+) is violated", res["out"])
        if res["reject_at"] is not None or viol:
            at = res["reject_at"] if res["reject_at"] is not None else (res["depth"] or 1)
            ev = rows[min(at, len(rows)) - 1]
            what = (f"invariant {viol.group(1)} of TreePm.tla fails in the state reached" if viol else
                    "no action of TreePm.tla produces the logged result / leaf count / root / values read at the node positions")
            out.violation(f"persistent backend, node level (depth {d}, seed {seed()}): line {at} {json.dumps(ev)[:300]}: {what}",
                          {"kind": "pmnodes", "depth": d, "count": count, "len": ln, "line": at, "event": ev})
            continue
        if res["tool_error"]:
            raise ToolError("pmnodes judge failed:\n" + res["tool_error"])
        if res["depth"] - 1 != len(rows):
            raise ToolError(f"pmnodes judge consumed {res['depth'] - 1} of {len(rows)} lines")
        lines += len(rows)
        layout += len(re.findall(r'<<\s*"LAYOUT",\s*\d+\s*>>', res["out"]))
        if d == 2:
            # negative control: one value read at a node position altered in one logged line -> rejected exactly there
            k = next(i for i, r in enumerate(rows) if r["op"] == "range" and r["res"] == "ok")
            neg = [json.loads(json.dumps(r)) for r in rows[:k + 1]]
            neg[k]["reads"][1][0] = neg[k]["reads"][1][0] + 1
            np_ = os.path.join(wd, "pmnodes-neg.ndjson")
            write_ndjson(np_, neg)
            r2 = tlc_judge("Trace_TreePm", c, {"TRACE": np_, "TABLE": tb}, f"judge-pmnodes-{out.prop}-neg", timeout=600)
            if r2["reject_at"] != k + 1:
                raise ToolError(f"negative control: the node-level judge did not reject the altered line {k + 1} (reject_at={r2['reject_at']})")
    out.add(pm_store_lines_validated=lines, pm_store_depths=[p[0] for p in plan], pm_store_layout_differences=layout)
    out.notes.append(f"Trace_TreePm.tla: {lines} calls on the real pmtree::MerkleTree<SledDB, Poseidon> (depths {[p[0] for p in plan]}, with reloads) accepted: "
                     "after every call the result, the leaf count, the root field and the value read at every node position are those of the model "
                     f"(verdict); the content of the store itself - which node keys hold a value, the raw next_index entry - equals the model's in all but {layout} "
                     "lines (information only: the property does not constrain the layout); storage configurations in rotation; negative control rejected")
    return states


def gen_edges(wd, name, depth, vals, max_batch, max_rem, ops):
    """every transition of the model as one record (exhaustive, from TLC)"""
    cfg = os.path.join(wd, f"Emit_{name}.cfg")
    write_cfg(cfg, depth, vals, max_batch, max_rem, ops, emit=True, invariants=["TypeOK"])
    res = tlc_mc("Tree", cfg, f"emit-{name}", workers=4, timeout=900, coverage=False)
    if not res.get("finished"):
        raise ToolError("edge emission failed:\n" + res["out"][-2000:])
    edges = []
    for m in re.finditer(r'^<<"EDGE", "(.*)">>$', res["out"], re.M):
        edges.append(json.loads(m.group(1).replace('\\"', '"')))
    if len(edges) != res["generated"] - 1:
        raise ToolError(f"edge count {len(edges)} != transitions {res['generated'] - 1}")
    return edges, res


def skey(s):
    return (tuple(s["leaves"]), s["next"], tuple(sorted(s["fl"])))


def walk(edges, depth, rnd, steps, prefer=None):
    """Seeded transition tour: from the current model state take an unvisited transition if there is one
    (preferring the ops in `prefer`), otherwise move along a shortest path to a state that has one.
    Returns (scenario, number of distinct transitions covered)."""
    by_src = defaultdict(list)
    for i, e in enumerate(edges):
        by_src[skey(e["src"])].append(i)
    for v in by_src.values():
        rnd.shuffle(v)
    unv = {k: deque(sorted(v, key=lambda i: 0 if (prefer and edges[i]["op"]["c"] in prefer) else 1)) for k, v in by_src.items()}
    visited = set()
    cur = skey(edges[0]["src"])
    init = cur
    scen = [{"c": "reset", "d": depth}]

    def take(i):
        nonlocal cur
        visited.add(i)
        scen.append(concretise(edges[i]["op"], rnd))
        cur = skey(edges[i]["dst"])

    while len(scen) < steps + 1:
        q = unv.get(cur)
        while q and q[0] in visited:
            q.popleft()
        if q:
            take(q.popleft())
            continue
        # BFS to the nearest state with an unvisited transition
        prev = {cur: None}
        dq = deque([cur])
        target = None
        while dq:
            s = dq.popleft()
            qq = unv.get(s)
            while qq and qq[0] in visited:
                qq.popleft()
            if qq:
                target = s
                break
            for i in by_src.get(s, []):
                dst = skey(edges[i]["dst"])
                if dst not in prev:
                    prev[dst] = (s, i)
                    dq.append(dst)
        if target is None:
            break
        path = []
        s = target
        while prev[s] is not None:
            s, i = prev[s]
            path.append(i)
        for i in reversed(path):
            take(i)
    return scen, len(visited)


def concretise(op, rnd):
    """symbolic model call -> concrete call: a removal SET becomes a list in random order, sometimes with a duplicate"""
    op = dict(op)
    if "rem" in op:
        rem = list(op["rem"])
        rnd.shuffle(rem)
        if rem and rnd.random() < 0.15:
            rem.append(rnd.choice(rem))
        op["rem"] = rem
    return op


def gen_sim(wd, name, depth, vals, max_batch, max_rem, ops, num, length, sd):
    """random behaviours of the model from TLC -simulate (spec -> impl at depths where edges are too many)"""
    cfg = os.path.join(wd, f"Sim_{name}.cfg")
    write_cfg(cfg, depth, vals, max_batch, max_rem, ops, hist=length, invariants=["TypeOK"])
    res = tlc_mc("Tree", cfg, f"sim-{name}", workers=1, timeout=600, coverage=False,
                 extra=["-simulate", f"num={num}", "-depth", str(length + 2), "-seed", str(sd)])
    beh = []
    seen = set()
    for m in re.finditer(r'^<<"BEHAVIOUR", "(.*)">>$', res["out"], re.M):
        txt = m.group(1).replace('\\"', '"')
        if txt in seen:
            continue
        seen.add(txt)
        beh.append(json.loads(txt))
    if not beh:
        raise ToolError("TLC simulation produced no behaviour:\n" + res["out"][-2000:])
    rnd = random.Random(sd)
    scen = []
    for b in beh:
        scen.append({"c": "reset", "d": depth})
        scen.extend(concretise(op, rnd) for op in b)
    return scen, len(beh)


def gen_random(rnd, ops, n_hist, length, depths=(1, 2, 3, 4, 5)):
    """impl -> spec: seeded random histories with richer values than the model constants"""
    scen = []
    for _ in range(n_hist):
        d = rnd.choice(depths)
        cap = 1 << d
        scen.append({"c": "reset", "d": d})
        for _ in range(length):
            c = rnd.choice(ops)
            v = lambda: rnd.choice([0, 1, 2, 3, 7, 15])
            pos = lambda: rnd.choice([0, cap - 1, cap, rnd.randrange(cap), rnd.randrange(cap), cap // 2, max(cap // 2 - 1, 0)])
            if c == "set":
                scen.append({"c": "set", "i": pos(), "v": v()})
            elif c == "delete":
                scen.append({"c": "delete", "i": pos()})
            elif c == "append":
                scen.append({"c": "append", "v": v()})
            elif c == "range":
                n = rnd.choice([0, 1, 2, 3, cap // 2, cap, rnd.randrange(cap + 1)])
                scen.append({"c": "range", "s": pos(), "vs": [v() for _ in range(n)]})
            elif c == "override":
                n = rnd.choice([0, 0, 1, 2, 3, rnd.randrange(cap + 1)])
                k = rnd.choice([0, 1, 1, 2, 3, rnd.randrange(cap + 1)])
                rem = [rnd.choice([rnd.randrange(cap), rnd.randrange(cap), cap - 1, 0, cap]) for _ in range(k)]
                st = pos()
                if rnd.random() < 0.12:
                    # more leaves than the tree holds (from position 0 and elsewhere), with removals of written positions
                    n, st = cap + rnd.choice([1, 2]), rnd.choice([0, 0, 1])
                    rem = rem or [rnd.randrange(cap)]
                scen.append({"c": "override", "s": st, "vs": [v() for _ in range(n)], "rem": rem})
            elif c == "init":
                n = rnd.choice([0, 1, 2, cap, rnd.randrange(cap + 1)])
                scen.append({"c": "init", "vs": [v() for _ in range(n)]})
    return scen


BIG = 1 << 20
HALF = 1 << 19
PROBES = [0, 1, 255, 256, 257, (1 << 19) - 1, 1 << 19, BIG - 1]


def gen_random_big(rnd, ops, n_hist, length, near_end=False, depth=20, big_batches=False):
    """large-depth histories (sparse observation): boundary positions of the real tree, few touched leaves"""
    BIG = 1 << depth
    HALF = BIG >> 1
    probes = sorted({0, 1, 255, 256, 257, HALF - 1, HALF, BIG - 1} if depth != 20 else set(PROBES))
    scen = []
    for hno in range(n_hist):
        scen.append({"c": "reset", "d": depth, "probe": probes})
        low = rnd.random() < 0.5          # half of the histories stay below 300 so that the empty list is observable
        # (a batch of thousands of leaves is exercised under C01 - history class "big-batch": here it would make every later
        #  observation of the history read and fold thousands of watched leaves)
        for _ in range(length):
            c = rnd.choice(ops)
            v = lambda: rnd.choice([0, 1, 2, 3, 7, 15])
            if low:
                pos = lambda: rnd.choice([0, 1, 2, 3, 255, 256, rnd.randrange(300), rnd.randrange(16)])
            else:
                pos = lambda: rnd.choice([0, 1, 255, HALF - 1, HALF, HALF + 1, BIG - 2, BIG - 1, BIG, rnd.randrange(300)])
            if c == "set":
                scen.append({"c": "set", "i": pos(), "v": v()})
            elif c == "delete":
                scen.append({"c": "delete", "i": pos()})
            elif c == "append":
                scen.append({"c": "append", "v": v()})
            elif c == "range":
                # (pmtree walks the whole right half for a range that starts near the end of the tree: keep
                #  accepted ranges away from there, rejected ones are fine)
                n = rnd.choice([0, 1, 2, 3, 5])
                if big_batches and rnd.random() < 0.12:
                    n = rnd.choice([64, 65, 130, 257])          # batches long enough for any chunked / parallel path
                st = rnd.choice([0, 1, 255, HALF - 1, HALF, HALF + 1, BIG, rnd.randrange(300)]) if not low else pos()
                if near_end and not low and rnd.random() < 0.4:
                    st = rnd.choice([BIG - 3, BIG - 2, BIG - 1])        # in-memory backends: accepted ranges ending at capacity
                elif st == BIG - 1 and n == 1:
                    n = 2
                scen.append({"c": "range", "s": st, "vs": [v() for _ in range(n)]})
            elif c == "override":
                n = rnd.choice([0, 0, 1, 2, 3])
                k = rnd.choice([0, 1, 1, 2, 3])
                if big_batches and rnd.random() < 0.12:
                    n, k = rnd.choice([(70, 3), (3, 40), (65, 33)])
                rem = [rnd.choice([0, 1, 2, 3, 255, rnd.randrange(256), rnd.randrange(16)]) for _ in range(k)]
                st = rnd.choice([0, 1, 2, 3, 255, 256, rnd.randrange(300), rnd.randrange(16)])
                if not low and (n == 0 or k == 0):
                    st = rnd.choice([st, HALF - 1, HALF, BIG])
                scen.append({"c": "override", "s": st, "vs": [v() for _ in range(n)], "rem": rem})
            elif c == "init":
                n = rnd.choice([0, 1, 2, 4])
                scen.append({"c": "init", "vs": [v() for _ in range(n)]})
    return scen


def execute(binary, wd, name, scenario, targets, tamper_every=1):
    sp = os.path.join(wd, f"{name}.scen.ndjson")
    tp = os.path.join(wd, f"{name}.trace.ndjson")
    tb = os.path.join(wd, f"{name}.tab.json")
    write_ndjson(sp, scenario)
    if targets == ["rln"]:
        cmd = [binary, "rln", "--scenario", sp, "--out", tp, "--tab", tb]
    else:
        cmd = [binary, "tree", "--scenario", sp, "--out", tp, "--tab", tb, "--targets", ",".join(targets),
               "--tamper-every", str(tamper_every)]
    import hook
    env = {"ZEROKIT_VERIF_TRACE": hook.hook_env(wd, name)}                   # hook H2 records next to the recorder
    if tamper_every:                                                          # (C07: the proof queries are events too)
        env["ZEROKIT_VERIF_TRACE_PROOFS"] = "1"
    rc, o = run(cmd, timeout=3600, env=env)
    if rc != 0:
        raise ToolError(f"harness failed ({rc}):\n{o[-3000:]}")
    return tp, tb


def judge(prop, wd, name, tp, tb, kf_names):
    ctl = os.path.join(wd, f"{name}.ctl.json")
    with open(ctl, "w") as f:
        json.dump({"prop": prop, "kf": kf_names}, f)
    res = tlc_judge("Trace_Tree", "Trace_Tree.cfg", {"TRACE": tp, "TABLE": tb, "CTL": ctl}, f"judge-{prop}-{name}")
    if res["tool_error"]:
        raise ToolError(f"judge failed on {tp}:\n{res['tool_error']}")
    return res


def negative_control(prop, wd, name, tp, tb, kf_names, rnd):
    """binding check: a trace with one recorded field corrupted must be rejected by the same judge"""
    rows = read_ndjson(tp)[:400]
    judged = {"C06": ALPHABET["C06"], "C08": ["override", "init"]}.get(prop, ALL_OPS)
    cand = [i for i, r in enumerate(rows) if r["t"] == "op" and "broken" not in r["obs"] and r["op"]["c"] in judged]
    if not cand:
        return None
    i = rnd.choice(cand)
    o = rows[i]["obs"]
    if prop == "C15":
        o["empties"] = [x for x in range(o["next"] + 1) if x not in o["empties"]][:max(1, len(o["empties"]) + 1)]
        if o["empties"] == rows[i]["obs"].get("_orig"):
            pass
    elif prop == "C07":
        p = o["proofs"][rnd.randrange(len(o["proofs"]))]
        if p.get("res") == "ok":
            p["bits"][0] = 1 - p["bits"][0]
        else:
            p["res"] = "ok2"
    else:
        o["root"] = o["root"] + 1
    cp = os.path.join(wd, f"{name}.neg.ndjson")
    write_ndjson(cp, rows)
    res = judge(prop, wd, name + "-neg", cp, tb, kf_names)
    lines = set(res["dev"]) | {l for _, l in res["kf"]}
    return (i + 1) in lines


def summarise_trace(tp):
    rows = read_ndjson(tp)
    seen = set()
    nontrivial = 0
    prev = None
    for r in rows:
        if r["t"] != "op":
            prev = r
            continue
        o, po = r["obs"], prev["obs"] if prev else {}
        key = (r["tgt"], r["d"], json.dumps(po.get("leaves")), po.get("next"), json.dumps(po.get("empties")),
               json.dumps(r["op"], sort_keys=True))
        changed = (o.get("leaves") != po.get("leaves") or o.get("next") != po.get("next")
                   or o.get("empties") != po.get("empties") or r["res"] != "ok")
        if key not in seen and changed:
            nontrivial += 1
        seen.add(key)
        prev = r
    return rows, len(seen), nontrivial


def replay_obj(rows, line, scenario_by_k, prop):
    ev = rows[line - 1]
    k = ev["k"]
    start = k
    while start > 0 and scenario_by_k[start]["c"] != "reset":
        start -= 1
    return {"kind": "tree", "prop": prop, "target": ev["tgt"], "scenario": scenario_by_k[start:k + 1],
            "event": {kk: ev[kk] for kk in ev if kk != "obs"},
            "observed": {kk: ev["obs"].get(kk) for kk in ("next", "empties", "leaves", "root", "broken") if kk in ev["obs"]}}


KF_TEXT = {}


def run_property(prop, tier, out, binary=None):
    wd = workdir(f"{prop}-{tier}")
    rnd = random.Random(seed() * 7919 + hash(prop) % 1000)
    rnd = random.Random(seed() * 7919 + sum(map(ord, prop)))
    model_check(tier, wd, out)
    if binary is None:
        binary, _ = build_harness("default")
    ops = ALPHABET[prop]
    kfs = kf_for(prop)
    kf_names = [f["name"] for f in kfs]
    kf_desc = {f["name"]: f["what"] for f in kfs}
    quick = tier == "quick"
    scenarios = []
    # 1. spec -> impl, exhaustive transition set at depth 2 (and 1), toured
    edges2, r2 = gen_edges(wd, "d2", 2, [1, 2] if (quick and "override" in ops) else [0, 1, 2], 2, 5, ops)
    prefer = {"C08": ["override", "init"]}.get(prop)
    steps = {"C06": 6000, "C08": 5000, "C15": 3000, "C07": 2000}[prop] if quick else min(len(edges2) + 2000, 40000)   # (thorough: every transition up to 40 000 calls)
    sc, cov = walk(edges2, 2, rnd, steps, prefer)
    scenarios.append(("tour-d2", sc, ["full", "optimal", "pm"] if not quick else ["full", "optimal", "pm"]))
    out.notes.append(f"depth-2 transition tour: {len(edges2)} model transitions emitted by TLC, {cov} distinct covered by a {len(sc) - 1}-call walk")
    # (depth 1 with batches of up to THREE leaves: longer than the capacity, so that every oversized write - at every
    #  start, with every removal subset - is a transition of the model: rejected, nothing changed)
    edges1, _ = gen_edges(wd, "d1", 1, [0, 1, 2] if not quick else [0, 1], 3, 3, ops)
    sc1, cov1 = walk(edges1, 1, rnd, len(edges1) + 200)
    scenarios.append(("tour-d1", sc1, ["full", "optimal", "pm"]))
    out.notes.append(f"depth-1 transition tour: {len(edges1)} transitions, {cov1} covered")
    # 2. spec -> impl, TLC simulation at depths 3 and 4
    for d, vals, mb, mr in ((3, [0, 1, 2], 2, 2), (4, [1, 2], 2, 1)) if quick else ((3, [0, 1, 2], 3, 2), (4, [0, 1, 2], 2, 2)):
        num = (12 if quick else 100)
        sc, nb = gen_sim(wd, f"d{d}", d, vals, mb, mr, ops, num, 30, seed() + d)
        scenarios.append((f"sim-d{d}", sc, ["full", "optimal", "pm", "pm-ls"]))     # pm-ls: the persistent backend in LowSpace mode
        out.notes.append(f"TLC -simulate depth {d}: {nb} behaviours of 30 calls")
    # 3. impl -> spec, seeded random histories with values/lengths outside the model constants
    sc = gen_random(rnd, ops, 40 if quick else 600, 25)
    scenarios.append(("random", sc, ["full", "optimal", "pm", "pm-ls"]))
    # 4. the same through the public RLN API (byte-level I/O; adds batch initialisation): depth-2 tour and depth 20
    rops = ops + (["init"] if prop != "C06" else [])
    edges_r, _ = gen_edges(wd, "rln2", 2, [1, 2], 2, 5, rops)
    scr, covr = walk(edges_r, 2, rnd, 2500 if quick else 12000, prefer)
    scenarios.append(("rln-tour-d2", scr, ["rln"]))
    out.notes.append(f"RLN API depth-2 tour: {len(edges_r)} transitions, {covr} covered")
    scenarios.append(("rln-d20", gen_random_big(rnd, rops, 12 if quick else 50, 25), ["rln"]))
    # 5. the other two backends behind the same public API (builds with `fullmerkletree` / without default features):
    #    depth 20 with boundary positions, and (thorough) the depth-2 tour
    other = {}
    for cfgname in ("full", "optimal"):
        other[cfgname], _ = build_harness(cfgname)
        scenarios.append((f"rln-d20-{cfgname}", gen_random_big(rnd, rops, 10 if quick else 80, 25, near_end=True), ["rln", cfgname]))
        if not quick:
            scenarios.append((f"rln-tour-d2-{cfgname}", scr, ["rln", cfgname]))
    # 6. the three backends at the trait level at depths 10 and 20 (sparse observation; proofs of low, high and
    #    moving positions with everything the proof type exposes: decoded position, recomputed root, verdicts)
    for dd in (10, 20):
        scenarios.append((f"big-d{dd}", gen_random_big(rnd, ops, 6 if quick else 30, 20, near_end=False, depth=dd, big_batches=True),
                          ["full", "optimal", "pm"] + (["pm-ls"] if dd == 10 else [])))
    # 7. (C06) batches of thousands of leaves at depth 20, judged on what the backends log themselves (hook H2): the
    #    recorder's observation would have to fold thousands of watched leaves after every call, the hook judge folds the
    #    model's leaf map once per call.  Long enough for any chunked / sliced write path of a storage layer.
    hook_only = set()
    if prop in ("C06", "C15"):
        n1, n2 = (2500, 17000) if quick else (9000, 40000)        # (the second one longer than 2^14 leaves)
        scenarios.append(("huge-batch", [
            {"c": "reset", "d": 20, "probe": []},
            {"c": "set", "i": 5, "v": 77},
            {"c": "range", "s": 1000, "vs": [100000 + k for k in range(n1)]},
            {"c": "set", "i": 7, "v": 78},
            {"c": "append", "v": 79},
            {"c": "delete", "i": 1200},
            {"c": "range", "s": HALF - 2000, "vs": [200000 + k for k in range(n2)]},
            {"c": "delete", "i": HALF},
            {"c": "append", "v": 80},
            # a fresh tree whose holes are few (the backends' own list of empty positions is short enough to be logged)
            {"c": "reset", "d": 20, "probe": []},
            {"c": "set", "i": 3, "v": 81},
            {"c": "range", "s": 6, "vs": [300000 + k for k in range(n2)]},
            {"c": "delete", "i": 16390},
            {"c": "set", "i": 1, "v": 82},
            {"c": "delete", "i": 6 + n2 - 1}], ["full", "optimal", "pm"]))
        hook_only.add("huge-batch")
    if prop == "C07":
        # C07 judges a tree against its OWN observed values, so it also runs the in-memory backends created with an
        # initial leaf that is not the hasher's default leaf (deletions write the default leaf), at small depth
        scenarios = [(n, sc_, (t + ["full-il", "optimal-il"]) if n in ("sim-d3", "random", "tour-d1") else t) for (n, sc_, t) in scenarios]
    total_events = 0
    distinct = nontriv = 0
    traces_ok = 0
    hook_judged = 0
    import hook
    import time as _t
    for name, sc, targets in scenarios:
        _t0 = _t.time()
        if len(targets) == 2 and targets[0] == "rln":
            tp, tb = execute(other[targets[1]], wd, name, sc, ["rln"])
        else:
            tp, tb = execute(binary, wd, name, sc, targets, tamper_every=(1 if prop == "C07" else 0))
        if name in hook_only:
            hj, hl, _ = hook.judge_dir(prop, wd, name, os.path.join(wd, f"hook-{name}"), binary, kf_names, kf_desc, out,
                                       "harness scenario " + name)
            hook_judged += hj
            out.notes.append(f"{name}: {hl} hook lines, {hj} calls judged by Trace_Hook only; {_t.time() - _t0:.1f}s")
            continue
        rows, dist, nt = summarise_trace(tp)
        _t1 = _t.time()
        res = judge(prop, wd, name, tp, tb, kf_names)
        out.notes.append(f"{name}: {len(rows)} judged lines; exec {_t1 - _t0:.1f}s judge {res['wall']:.1f}s")
        if res["depth"] is None or res["depth"] - 1 != len(rows):
            raise ToolError(f"judge consumed {res['depth']} of {len(rows)} lines for {name}")
        total_events += len(rows)
        distinct += dist
        nontriv += nt
        for kname, line in res["kf"]:
            out.known(kname, kf_desc.get(kname, ""))
        for line in res["dev"]:
            ev = rows[line - 1]
            desc = (f"{ev['tgt']} depth {ev.get('d')} call {json.dumps(ev.get('op'))} -> {ev.get('res')} "
                    f"is not a step of the ideal tree ({name}, trace line {line}): {res['why'].get(line, '')}")
            out.violation(desc, replay_obj(rows, line, sc, prop))
        if not res["dev"]:
            traces_ok += sum(1 for r in rows if r["t"] == "reset")
        for r in rows:
            if r["t"] == "op" and r["res"] == "ok":
                out.sample({"scenario": name, "target": r["tgt"], "depth": r["d"], "call": r["op"], "result": r["res"],
                            "observed": {"next": r["obs"].get("next"), "empties": r["obs"].get("empties"),
                                         "leaves": r["obs"].get("leaves"), "root": r["obs"].get("root")}}, limit=4)
                break
        # the same execution as logged by the backends themselves (hook H2), validated with the model state carried
        # through the whole trace (C07: every membership-proof query the recorder made is a hook line, judged against
        # the IDEAL tree of the model state)
        if True:
            hj, hl, _ = hook.judge_dir(prop, wd, name, os.path.join(wd, f"hook-{name}"), binary, kf_names, kf_desc, out,
                                       "harness scenario " + name)
            hook_judged += hj
            if name == "tour-d2":
                hneg = hook.negative_control(prop, wd, name, binary, kf_names)
                if hneg is False:
                    raise ToolError("negative control: the hook judge accepted a corrupted trace (binding broken)")
                out.add(hook_negative_control_rejected=bool(hneg))
        if name == "tour-d2":
            neg = negative_control(prop, wd, name, tp, tb, kf_names, rnd)
            if neg is False:
                raise ToolError("negative control: the judge accepted a corrupted trace (binding broken)")
            out.add(negative_control_rejected=bool(neg))
    if True:
        hook.run_repo_tests(prop, tier, wd, binary, kf_names, kf_desc, out)
        if hook_judged == 0:
            raise ToolError("vacuity: no hook line was judged (hook H2 not compiled into the harness?)")
    out.add(evaluations=total_events, distinct_nontrivial=nontriv, distinct_cases=distinct,
            traces_validated_against_impl=traces_ok,
            rule="one evaluation = one API call on one backend with its full observation, judged as a step of "
                 "Tree.tla/TreeOps.tla; distinct = distinct (backend, depth, observed pre-state, call); non-trivial = "
                 "the call changed the observable state or was rejected",
            checker_cmd="tlc Trace_Tree.tla (POSTCONDITION Accepted) on traces recorded by zkexec tree")
