"""Hook H2 traces: call traces written by the tree backends themselves (utils/src/verif_trace.rs, cfg zerokit_verif)
are validated by TLC against Trace_Hook.tla, which carries the MODEL state of every live instance through the trace.
Drivers: (a) every harness scenario of the tree checks (the hook records while the recorder observes), (b) the
repository's own tests, built with the hook on in a target directory under the work directory."""
import glob
import json
import os
import shutil

from common import REPO, WORK, ToolError, read_ndjson, run, tlc_judge, write_ndjson

RUSTFLAGS = "--cfg zerokit_verif --check-cfg cfg(zerokit_verif)"


def hook_env(wd, name):
    d = os.path.join(wd, f"hook-{name}")
    shutil.rmtree(d, ignore_errors=True)
    os.makedirs(d, exist_ok=True)
    return d


def facts(binary, hookdir, prefix):
    rc, o = run([binary, "hookfacts", "--in", hookdir, "--out", prefix], timeout=1800)
    if rc != 0:
        raise ToolError(f"hookfacts failed ({rc}):\n{o[-2000:]}")
    with open(prefix + ".stats.json") as f:
        return json.load(f)


def raw_events(hookdir):
    """(file, seq) -> raw hook line, and per file the list in order"""
    by = {}
    for f in sorted(glob.glob(os.path.join(hookdir, "tree-*.ndjson"))):
        rows = []
        with open(f) as fh:
            for line in fh:
                try:
                    rows.append(json.loads(line))
                except ValueError:
                    pass
        rows.sort(key=lambda r: r.get("seq", 0))
        by[os.path.basename(f)] = rows
    return by


def instance_history(hookdir, trows, line):
    """the raw hook lines of the instance that trace line `line` belongs to, from its `new` line to that call"""
    ev = trows[line - 1]
    inst = ev["inst"]
    src = None
    seq_new = None
    for r in trows[:line]:
        if r.get("ev") == "new" and r.get("inst") == inst:
            src, seq_new = r.get("src"), r.get("seq")
    raw = raw_events(hookdir).get(src, [])
    addr = None
    hist = []
    for r in raw:
        if r.get("seq") == seq_new:
            addr = r.get("inst")
        if addr is not None and r.get("inst") == addr and r.get("seq", 0) >= seq_new and r.get("seq", 0) <= ev.get("seq", 0):
            if r.get("ev") != "drop":
                hist.append({k: v for k, v in r.items() if k not in ("pid", "th")})
    return hist


def judge_dir(prop, wd, name, hookdir, binary, kf_names, kf_desc, out, how, min_events=1):
    """hookfacts + one TLC run per hasher class; violations / known findings go to `out`. Returns judged-call count."""
    prefix = os.path.join(wd, f"hk-{name}")
    st = facts(binary, hookdir, prefix)
    ctl = prefix + ".ctl.json"
    with open(ctl, "w") as f:
        json.dump({"prop": prop, "kf": kf_names}, f)
    judged_total = 0
    lines_total = 0
    for c in st.get("classes", []):
        cn = c["class"]
        tp, tb = f"{prefix}-{cn}.trace.ndjson", f"{prefix}-{cn}.tab.json"
        rows = read_ndjson(tp)
        if not rows:
            continue
        res = tlc_judge("Trace_Hook", "Trace_Hook.cfg", {"TRACE": tp, "TABLE": tb, "CTL": ctl}, f"hook-{prop}-{name}-{cn}", timeout=1800)
        if res["tool_error"]:
            raise ToolError(f"hook judge failed on {tp}:\n{res['tool_error']}")
        if res["depth"] is None or res["depth"] - 1 != len(rows):
            raise ToolError(f"hook judge consumed {res['depth']} of {len(rows)} lines for {name}/{cn}")
        import re
        m = re.search(r'<<"STAT", (\d+), (\d+), (\d+), (\d+)>>', res["out"])
        judged, opaque, skipped, nkf = (int(x) for x in m.groups()) if m else (0, 0, 0, 0)
        judged_total += judged
        lines_total += len(rows)
        out.add(hook_lines=len(rows), hook_calls_judged=judged, hook_calls_of_unknown_state=skipped)
        for kname, line in res["kf"]:
            out.known(kname, kf_desc.get(kname, ""))
        for line in res["dev"]:
            ev = rows[line - 1]
            hist = instance_history(hookdir, rows, line)
            desc = (f"hook trace ({how}; {name}, {cn}): backend {ev.get('be')} call {json.dumps(ev.get('op'))} -> {ev.get('res')} "
                    f"(root/leaf count/leaves/empties logged by the library after the call) is not a step of the ideal tree "
                    f"from the model state carried since the instance was created: {res['why'].get(line, '')}")
            out.violation(desc, {"kind": "hook", "prop": prop, "class": cn, "how": how, "events": hist})
    return judged_total, lines_total, st


def negative_control(prop, wd, name, binary, kf_names):
    """binding: one logged field of an accepted hook trace is corrupted; the judge must object at exactly that line"""
    prefix = os.path.join(wd, f"hk-{name}")
    tp, tb = f"{prefix}-poseidon.trace.ndjson", f"{prefix}-poseidon.tab.json"
    if not os.path.exists(tp):
        return None
    rows = read_ndjson(tp)[:600]
    alphabet = {"C06": ("set", "delete", "append", "range"), "C08": ("override",)}.get(prop, ("set", "delete", "append", "range", "override"))
    # a conforming, judged line of an in-memory backend early in the trace (its instance is certainly tracked)
    tracked = set()
    pick = None
    if prop == "C07":
        for i, r in enumerate(rows):
            if r.get("ev") == "new" and r.get("init0") == 1 and r.get("next") == 0:
                tracked.add(r["inst"])
            elif r.get("ev") == "drop":
                tracked.discard(r["inst"])
            elif r.get("ev") == "override" and r.get("be") == "pm":
                tracked.discard(r["inst"])
            elif r.get("ev") == "proof" and r.get("inst") in tracked and r.get("res") == "ok" and r.get("sib"):
                pick = i
                break
        if pick is None:
            return None
        rows[pick]["sib"][-1] = rows[pick]["sib"][-1] + 1
        cp = prefix + "-neg.trace.ndjson"
        write_ndjson(cp, rows)
        res = tlc_judge("Trace_Hook", "Trace_Hook.cfg", {"TRACE": cp, "TABLE": tb, "CTL": prefix + ".ctl.json"}, f"hook-{prop}-{name}-neg", timeout=900)
        if res["tool_error"]:
            raise ToolError("hook negative control failed to run:\n" + res["tool_error"])
        return (pick + 1) in res["dev"]
    for i, r in enumerate(rows):
        if r.get("ev") == "new" and r.get("init0") == 1 and r.get("next") == 0:
            tracked.add(r["inst"])
        elif r.get("ev") == "drop":
            tracked.discard(r["inst"])
        elif r.get("inst") in tracked and r.get("ev") in alphabet and r.get("res") == "ok" and "nopost" not in r and r.get("be") != "pm":
            if prop != "C15" or "empties" in r:
                pick = i
                break
        elif r.get("inst") in tracked and r.get("be") == "pm" and r.get("ev") == "override":
            tracked.discard(r["inst"])
    if pick is None:
        return None
    if prop == "C15":
        rows[pick]["empties"] = [x for x in range(rows[pick]["next"] + 1) if x not in rows[pick]["empties"]]
    else:
        rows[pick]["next"] = rows[pick]["next"] + 1
    cp = prefix + "-neg.trace.ndjson"
    write_ndjson(cp, rows)
    ctl = prefix + ".ctl.json"
    res = tlc_judge("Trace_Hook", "Trace_Hook.cfg", {"TRACE": cp, "TABLE": tb, "CTL": ctl}, f"hook-{prop}-{name}-neg", timeout=900)
    if res["tool_error"]:
        raise ToolError("hook negative control failed to run:\n" + res["tool_error"])
    return (pick + 1) in res["dev"]


# ---------------------------------------------------------------- the repository's own tests as drivers
SUITES_QUICK = [
    # (package, cargo test arguments, feature flags)
    ("zerokit_utils", ["--test", "merkle_tree"], []),
    ("rln", ["--test", "poseidon_tree"], []),
]
SUITES_THOROUGH = SUITES_QUICK + [
    ("rln", ["--lib", "tree_test"], []),
    ("rln", ["--test", "ffi"], []),
    ("rln", ["--test", "public"], []),
    ("rln", ["--lib", "tree_test"], ["--no-default-features"]),
    ("rln", ["--lib", "tree_test"], ["--features", "fullmerkletree"]),
    ("rln", ["--test", "poseidon_tree"], ["--no-default-features"]),
]


def run_repo_tests(prop, tier, wd, binary, kf_names, kf_desc, out):
    """build and run the repository's tree-related tests with the hook on (target directory under the work
    directory, nothing is written into the repository) and validate what the backends logged"""
    target = os.path.join(WORK, "hooktarget")
    suites = SUITES_QUICK if tier == "quick" else SUITES_THOROUGH
    judged = 0
    ran = []
    for k, (pkg, targs, feats) in enumerate(suites):
        name = f"repo{k}"
        hd = hook_env(wd, name)
        cmd = ["cargo", "test", "--offline", "-p", pkg] + feats + targs + ["--", "--test-threads", "4"]
        env = {"CARGO_TARGET_DIR": target, "RUSTFLAGS": RUSTFLAGS, "ZEROKIT_VERIF_TRACE": hd, "CARGO_NET_OFFLINE": "true"}
        if prop == "C07":
            env["ZEROKIT_VERIF_TRACE_PROOFS"] = "1"
        rc, o = run(cmd, cwd=REPO, env=env, timeout=3600)
        if "error: could not compile" in o or "error[E" in o:
            raise ToolError(f"the repository's tests do not build with the hook on:\n{o[-3000:]}")
        # a failing test is not this check's business (the suite is the baseline's); the calls it made are judged all the same
        passed = sum(int(x) for x in __import__("re").findall(r"test result: \w+\. (\d+) passed", o))
        j, lines, st = judge_dir(prop, wd, name, hd, binary, kf_names, kf_desc, out, "the repository's own tests: cargo test -p " + " ".join([pkg] + feats + targs))
        judged += j
        ran.append(f"{pkg} {' '.join(feats + targs)}: {passed} tests passed, {st.get('events', 0)} hook lines from {st.get('files', 0)} processes, {j} calls judged")
    out.notes.append("repository tests as drivers (hook H2): " + "; ".join(ran))
    out.add(repo_test_calls_judged=judged)
    if judged == 0 and prop not in ("C08",):
        raise ToolError("vacuity: the repository's tests produced no judged hook line (hook not compiled in?)")
    return judged


def replay(prop, wd, r, binary, kf_names):
    """re-execute the recorded raw calls of one instance on a fresh tree of the same backend (hook on) and judge again"""
    evp = os.path.join(wd, "hook-replay-events.ndjson")
    write_ndjson(evp, r["events"])
    hd = hook_env(wd, "replay")
    rc, o = run([binary, "hookreplay", "--events", evp], env={"ZEROKIT_VERIF_TRACE": hd}, timeout=1800)
    if rc != 0:
        raise ToolError(f"hookreplay failed ({rc}): {o[-1500:]}")
    prefix = os.path.join(wd, "hk-replay")
    facts(binary, hd, prefix)
    ctl = prefix + ".ctl.json"
    with open(ctl, "w") as f:
        json.dump({"prop": prop, "kf": kf_names}, f)
    tp, tb = prefix + "-poseidon.trace.ndjson", prefix + "-poseidon.tab.json"
    rows = read_ndjson(tp)
    res = tlc_judge("Trace_Hook", "Trace_Hook.cfg", {"TRACE": tp, "TABLE": tb, "CTL": ctl}, f"hook-replay-{prop}")
    return rows, res
