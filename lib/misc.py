"""Function-level properties judged by transcription: C10 (wire formats) and C14 (identities)."""
import json
import os
import re

from common import (SPEC, ToolError, build_harness, read_ndjson, run, seed, tlc_judge, workdir, write_ndjson)


def slim(ev, limit=160):
    o = {}
    for k, v in ev.items():
        s = json.dumps(v)
        o[k] = v if len(s) <= limit else f"<{len(s)} chars>"
    return o


def finish_judge(out, prop, rows, res, what):
    if res["tool_error"]:
        raise ToolError(f"judge failed:\n{res['tool_error']}")
    if res["depth"] is None or res["depth"] - 1 != len(rows):
        raise ToolError(f"judge consumed {res['depth']} of {len(rows)} lines")
    for line in res["dev"]:
        ev = rows[line - 1]
        out.violation(f"{what} {json.dumps(slim(ev))[:500]} (trace line {line}): {res['why'].get(line, '')}",
                      {"kind": prop, "event": ev})


def run_c10(tier, out):
    wd = workdir(f"C10-{tier}")
    quick = tier == "quick"
    # algebra of the formats, exhaustive on a small instance
    rc, o = run(["timeout", "900", "tlc", "-workers", "4", "-metadir", os.path.join(wd, "mc"), "-cleanup", "-config", "MC_Codec.cfg", "MC_Codec.tla"],
                cwd=SPEC, timeout=1000)
    m = re.search(r'"CODEC-MC",\s*(\d+)', o)
    if "Model checking completed. No error has been found" not in o or not m:
        raise ToolError("Codec.tla algebra check failed:\n" + o[-3000:])
    out.notes.append(f"TLC MC_Codec (1-byte limbs, 2-limb elements): {m.group(1)} witnesses: decode(encode) = id, no proper prefix and no "
                     "one-byte extension of an encoding decodes")
    out.add(states=int(m.group(1)), transitions=int(m.group(1)) * 3)
    binary, _ = build_harness("default")
    tp = os.path.join(wd, "codec.trace.ndjson")
    n = 1500 if quick else 20000
    rc, o = run([binary, "codec", "--seed", str(seed()), "--count", str(n), "--out", tp], timeout=3600)
    if rc != 0:
        raise ToolError("harness failed:\n" + o[-2000:])
    rows = read_ndjson(tp)
    res = tlc_judge("Trace_Codec", "Trace_Codec.cfg", {"TRACE": tp}, "judge-C10", timeout=3000, xmx="8g")
    finish_judge(out, "C10", rows, res, "codec call")
    # negative control: one byte of one recorded encoding altered
    neg = list(rows[:40])
    tgt = next(i for i, r in enumerate(neg) if r["f"] == "vec_fr" and r.get("bytes"))
    neg[tgt] = dict(neg[tgt], bytes=[(neg[tgt]["bytes"][0] + 1) % 256] + neg[tgt]["bytes"][1:])
    cp = os.path.join(wd, "neg.ndjson")
    write_ndjson(cp, neg)
    r2 = tlc_judge("Trace_Codec", "Trace_Codec.cfg", {"TRACE": cp}, "judge-C10-neg")
    if (tgt + 1) not in r2["dev"]:
        raise ToolError("negative control: the codec judge accepted a corrupted trace")
    kinds = {}
    distinct = set()
    for r in rows:
        kinds[r["f"]] = kinds.get(r["f"], 0) + 1
        distinct.add((r["f"], json.dumps(r.get("val"), sort_keys=True)[:2000]))
    for r in rows[:12:3]:
        out.sample(slim(r))
    out.add(evaluations=len(rows), distinct_nontrivial=len(distinct), traces_validated_against_impl=1 if not res["dev"] else 0,
            per_codec=kinds, negative_control_rejected=True,
            rule="one evaluation = one serialiser/deserialiser call (or round trip) on a seeded boundary/random value, recorded with an "
                 "independent representation of the value (16-bit limbs of the big-integer limbs) and judged against Codec.tla; "
                 "distinct = distinct (codec, value)",
            checker_cmd="tlc Trace_Codec.tla")


def run_c14(tier, out):
    wd = workdir(f"C14-{tier}")
    quick = tier == "quick"
    binary, _ = build_harness("default")
    parts = []
    for proc in range(2 if quick else 4):
        tp = os.path.join(wd, f"keygen{proc}.ndjson")
        rc, o = run([binary, "keygen", "--seed", str(seed()), "--proc", str(proc), "--unseeded", str(60 if quick else 400),
                     "--out", tp, "--tab", os.path.join(wd, f"keygen{proc}.tab.json")], timeout=3600)
        if rc != 0:
            raise ToolError("harness failed:\n" + o[-2000:])
        parts += read_ndjson(tp)
    tp = os.path.join(wd, "keygen.trace.ndjson")
    write_ndjson(tp, parts)
    res = tlc_judge("Trace_Keygen", "Trace_Keygen.cfg", {"TRACE": tp}, "judge-C14", timeout=3000, xmx="8g")
    finish_judge(out, "C14", parts, res, "identity generation")
    # negative controls: a seeded identity that differs between processes; a commitment that is not H(secret)
    neg = [dict(r) for r in parts[:60]]
    t1 = next(i for i, r in enumerate(neg) if r["seeded"] and i > 20 and r.get("valb"))
    vb = [list(x) for x in neg[t1]["valb"]]
    vb[-1][0] ^= 1
    neg[t1]["valb"] = vb
    cp = os.path.join(wd, "neg.ndjson")
    write_ndjson(cp, neg)
    r2 = tlc_judge("Trace_Keygen", "Trace_Keygen.cfg", {"TRACE": cp}, "judge-C14-neg")
    if (t1 + 1) not in r2["dev"]:
        raise ToolError("negative control: the identity judge accepted a corrupted trace")
    seeds = {json.dumps(r.get("seed")) for r in parts if r.get("seeded")}
    distinct = {(r["entry"], r["ext"], r["seeded"], json.dumps(r.get("seed")), r["thr"], r["proc"]) for r in parts}
    for r in parts[:6:2]:
        out.sample(slim(r))
    out.add(evaluations=len(parts), distinct_nontrivial=len(distinct), traces_validated_against_impl=1 if not res["dev"] else 0,
            seeds=len(seeds), processes=2 if quick else 4, threads=9, negative_control_rejected=True,
            rule="one evaluation = one identity generation (seeded/unseeded, plain/extended) through protocol::*, RLN::* or ffi::*, from the "
                 "main thread or one of 8 concurrent threads, in one of several processes; distinct = distinct (entry, variant, seed, thread, process)",
            checker_cmd="tlc Trace_Keygen.tla on the concatenated traces of all processes")
