"""Relay.tla: the RLN-protected relay as a system (register / withdraw / publish / validate with a root window and a
nullifier log / slash).  TLC checks the design's invariants and liveness exhaustively for small constants, emits
behaviours by simulation, the harness drives them through one real RLN instance, and Trace_Relay.tla - which reuses
Relay's actions - validates the recorded execution step by step.  Used by C01, C02 and C03 (each charged only with
its own clauses, selected by CTL.prop)."""
import json
import os
import random
import re

from common import ToolError, build_harness, read_ndjson, require_mc_ok, run, seed, tlc_judge, tlc_mc, workdir, write_ndjson

POS = [0, 1 << 19, (1 << 20) - 1]


def constants(members, limit, epochs, sigs, mids, window, maxnet, maxtree, histlen):
    s = lambda xs: "{" + ", ".join(str(x) for x in xs) + "}"
    return (f"CONSTANTS\n  Members = {s(members)}\n  Limit = {limit}\n  Epochs = {s(epochs)}\n  Sigs = {s(sigs)}\n  Mids = {s(mids)}\n"
            f"  Window = {window}\n  MaxNet = {maxnet}\n  MaxTreeOps = {maxtree}\n  HistLen = {histlen}\n")


def model_check(tier, wd, out):
    cfg = os.path.join(wd, "MC_Relay.cfg")
    maxtree = 2 if tier == "quick" else 3
    with open(cfg, "w") as f:
        f.write("SPECIFICATION FairSpec\n" + constants([1, 2], 1, [1, 2], [1, 2], [0, 1], 2, 3, maxtree, 0)
                + "INVARIANTS TypeOK RateLimit HonestSafe SlashedOut RelayedWasMember NeverRegisteredNeverRelayed OnePerSlot\n"
                  "PROPERTIES SpamLeadsToSlash\nCHECK_DEADLOCK FALSE\n")
    res = tlc_mc("Relay", cfg, f"mc-relay-{out.prop}", workers=6, timeout=3000)
    require_mc_ok(res, "Relay.tla", must_take=["Register", "Withdraw", "Publish", "Validate", "Slash"])
    out.notes.append(f"TLC Relay.tla (2 members, limit 1, 2 epochs, 2 signals, window 2, 3 messages, {maxtree} tree changes; all "
                     f"interleavings; liveness under weak fairness of Slash): {res['distinct']} distinct states; RateLimit, HonestSafe, "
                     "SlashedOut, RelayedWasMember, NeverRegisteredNeverRelayed, OnePerSlot, SpamLeadsToSlash hold")
    return res["distinct"]


class Mirror:
    """the driver's copy of the design state, used only to hand the design's window (as tree versions) and the partner
    message of a slash to the harness; the judge re-derives everything from Relay.tla"""

    def __init__(self, limit, window):
        self.limit, self.W = limit, window
        self.members = frozenset()
        self.version = 0
        self.window = [(frozenset(), 0)]       # (content, version)
        self.net = []
        self.verdict = []
        self.log = {}                          # key -> (sig, idx)
        self.slashed = set()
        self.classes = set()

    def _push(self):
        self.version += 1
        self.window = (self.window + [(self.members, self.version)])[-self.W:]

    def tree(self, a, m):
        self.members = self.members | {m} if a == "reg" else self.members - {m}
        self._push()

    def publish(self, m, e, mid, sig):
        self.net.append(dict(m=m, e=e, mid=mid, sig=sig, root=self.members | {m}, member=m in self.members))
        self.verdict.append("none")

    def classify(self, i):
        msg = self.net[i - 1]
        if msg["root"] not in [c for c, _ in self.window]:
            return "invalid-stale" if msg["member"] else "invalid-nonmember"
        if not msg["member"]:
            self.classes.add("old-root-of-former-member")
        key = (msg["m"], msg["e"], msg["mid"])
        if key in self.log:
            return "dup" if self.log[key][0] == msg["sig"] else "spam"
        return "valid"

    def validate(self, i):
        c = self.classify(i)
        self.classes.add(c)
        self.verdict[i - 1] = c
        msg = self.net[i - 1]
        if c == "valid":
            self.log[(msg["m"], msg["e"], msg["mid"])] = (msg["sig"], i)
        return [v for _, v in self.window]

    def slash(self, i):
        msg = self.net[i - 1]
        j = self.log[(msg["m"], msg["e"], msg["mid"])][1]
        dele = msg["m"] in self.members
        self.slashed.add(msg["m"])
        if dele:
            self.members = self.members - {msg["m"]}
            self._push()
        self.classes.add("slash")
        return j, msg["m"], dele


def concretise(beh, limit, window, salt):
    mir = Mirror(limit, window)
    sc = [{"c": "reset", "limit": limit, "pos": POS, "salt": salt}]
    for op in beh:
        a = op["a"]
        if a in ("reg", "wd"):
            mir.tree(a, op["m"])
            sc.append({"c": a, "m": op["m"]})
        elif a == "pub":
            mir.publish(op["m"], op["e"], op["mid"], op["sig"])
            sc.append({"c": "pub", "m": op["m"], "e": op["e"], "mid": op["mid"], "sig": op["sig"]})
        elif a == "pubrej":
            mir.classes.add("pubrej")
            sc.append({"c": "pub", "m": op["m"], "e": op["e"], "mid": op["mid"], "sig": op["sig"], "counts": False})
        elif a == "val":
            sc.append({"c": "val", "i": op["i"], "window": mir.validate(op["i"])})
        elif a == "slash":
            j, m, dele = mir.slash(op["i"])
            sc.append({"c": "slash", "i": op["i"], "j": j, "m": m, "del": dele})
    # closing steps (all enabled in the design): validate what is still on the wire, slash what was detected
    for i in range(1, len(mir.net) + 1):
        if mir.verdict[i - 1] == "none":
            sc.append({"c": "val", "i": i, "window": mir.validate(i)})
    for i in range(1, len(mir.net) + 1):
        if mir.verdict[i - 1] == "spam" and mir.net[i - 1]["m"] not in mir.slashed:
            j, m, dele = mir.slash(i)
            sc.append({"c": "slash", "i": i, "j": j, "m": m, "del": dele})
    return sc, mir.classes, sum(1 for o in sc if o["c"] == "pub")


def gen_behaviours(wd, name, consts, histlen, num, sd):
    cfg = os.path.join(wd, f"Sim_Relay_{name}.cfg")
    with open(cfg, "w") as f:
        f.write("SPECIFICATION Spec\n" + consts + "INVARIANTS TypeOK\nCHECK_DEADLOCK FALSE\n")
    res = tlc_mc("Relay", cfg, f"sim-relay-{name}", workers=1, timeout=900, coverage=False,
                 extra=["-simulate", f"num={num}", "-depth", str(histlen + 2), "-seed", str(sd)])
    beh, seen = [], set()
    for m in re.finditer(r'^<<"BEHAVIOUR", "(.*)">>$', res["out"], re.M):
        txt = m.group(1).replace('\\"', '"')
        if txt not in seen:
            seen.add(txt)
            beh.append(json.loads(txt))
    if not beh:
        raise ToolError("TLC simulation of Relay.tla produced no behaviour:\n" + res["out"][-2000:])
    return beh


WANT = ["valid", "dup", "spam", "slash", "invalid-stale", "invalid-nonmember", "old-root-of-former-member", "pubrej"]


def select(cands, n, rnd):
    """greedy cover of the verdict classes, then the richest remaining behaviours (fewest proofs first among equals)"""
    chosen, covered = [], set()
    pool = list(cands)
    while pool and len(chosen) < n:
        pool.sort(key=lambda c: (-len((c[1] & set(WANT)) - covered), -len(c[1]), c[2], rnd.random()))
        best = pool.pop(0)
        chosen.append(best)
        covered |= best[1]
    return chosen, covered


def run_relay(prop, tier, out, binary=None):
    wd = workdir(f"{prop}-{tier}-relay")
    quick = tier == "quick"
    rnd = random.Random(seed() * 31 + sum(map(ord, prop)))
    states = model_check(tier, wd, out)
    if binary is None:
        binary, _ = build_harness("default")
    families = [("tight", dict(members=[1, 2], limit=1, epochs=[1], sigs=[1, 2], mids=[0, 1], window=2, maxnet=4, maxtree=4), 10),
                ("wide", dict(members=[1, 2, 3], limit=2, epochs=[1, 2], sigs=[1, 2, 3], mids=[0, 1, 2], window=3, maxnet=6, maxtree=5), 14)]
    total = judged_beh = 0
    classes_all = set()
    for fname, k, histlen in families:
        consts = constants(k["members"], k["limit"], k["epochs"], k["sigs"], k["mids"], k["window"], k["maxnet"], k["maxtree"], histlen)
        behs = gen_behaviours(wd, fname, consts, histlen, 400 if quick else 3000, seed() * 13 + len(fname))
        cands = []
        for b in behs:
            sc, classes, proofs = concretise(b, k["limit"], k["window"], seed())
            cands.append((sc, classes, proofs))
        chosen, covered = select(cands, (2 if quick else 25), rnd)
        classes_all |= covered
        scen = [op for sc, _, _ in chosen for op in sc]
        sp = os.path.join(wd, f"relay-{fname}.scen.ndjson")
        tp = os.path.join(wd, f"relay-{fname}.trace.ndjson")
        write_ndjson(sp, scen)
        rc, o = run([binary, "relay", "--scenario", sp, "--out", tp], timeout=7200)
        if rc != 0:
            raise ToolError(f"harness (relay) failed:\n{o[-2000:]}")
        rows = read_ndjson(tp)
        jcfg = os.path.join(wd, f"Trace_Relay_{fname}.cfg")
        with open(jcfg, "w") as f:
            f.write("SPECIFICATION TSpec\n" + constants(k["members"], k["limit"], k["epochs"], k["sigs"], k["mids"], k["window"],
                                                      k["maxnet"] + 0, k["maxtree"], 0)
                    + "INVARIANTS TypeOK RateLimit HonestSafe SlashedOut RelayedWasMember NeverRegisteredNeverRelayed OnePerSlot\n"
                      "POSTCONDITION Accepted\nCHECK_DEADLOCK FALSE\n")
        ctl = os.path.join(wd, f"relay-{fname}.ctl.json")
        with open(ctl, "w") as f:
            json.dump({"prop": prop}, f)
        res = tlc_judge("Trace_Relay", jcfg, {"TRACE": tp, "CTL": ctl}, f"judge-relay-{prop}-{fname}")
        if res["tool_error"]:
            raise ToolError("relay judge failed:\n" + res["tool_error"])
        if res["depth"] is None or res["depth"] - 1 != len(rows):
            raise ToolError(f"relay judge consumed {res['depth']} of {len(rows)} lines")
        for line in res["dev"]:
            ev = rows[line - 1]
            start = max(i for i in range(line) if rows[i]["t"] == "reset")
            out.violation(f"relay behaviour ({fname}): the library's answer {json.dumps(ev)[:300]} is not a step of Relay.tla "
                          f"(trace line {line}): {res['why'].get(line, '')[:500]}",
                          {"kind": "relay", "family": fname, "constants": k, "scenario": scen_of(scen, rows, start, line), "event": ev})
        total += len(rows)
        judged_beh += len(chosen)
        if fname == "tight":
            # negative control: one verdict of the library flipped
            neg = [dict(r) for r in rows]
            t = next((i for i, r in enumerate(neg) if r["t"] == "val" and r["res"] in ("true", "false")), None)
            if t is not None:
                neg[t]["res"] = "false" if neg[t]["res"] == "true" else "true"
                cp = os.path.join(wd, "relay-neg.ndjson")
                write_ndjson(cp, neg[:t + 1])
                with open(ctl, "w") as f:
                    json.dump({"prop": "all"}, f)
                r2 = tlc_judge("Trace_Relay", jcfg, {"TRACE": cp, "CTL": ctl}, f"judge-relay-{prop}-neg")
                if (t + 1) not in r2["dev"]:
                    raise ToolError("negative control: the relay judge accepted a flipped verdict")
            out.sample({"scenario": "relay", "family": fname, "calls": scen[:10]})
    out.notes.append(f"Relay.tla replay: {judged_beh} behaviours ({total} recorded interactions) validated by Trace_Relay.tla; "
                     f"classes exercised: {sorted(classes_all)}")
    return dict(relay_states=states, relay_interactions=total, relay_behaviours=judged_beh, relay_classes=sorted(classes_all))


def scen_of(scen, rows, start, line):
    """the scenario slice of the behaviour containing the deviating line (rows and scenario lines correspond 1:1)"""
    return scen[start:line]


def replay(prop, wd, r, binary):
    """re-execute the recorded behaviour and judge it again; returns (rows, judge result)"""
    k = r["constants"]
    sp = os.path.join(wd, "relay.scen.ndjson")
    tp = os.path.join(wd, "relay.trace.ndjson")
    write_ndjson(sp, r["scenario"])
    rc, o = run([binary, "relay", "--scenario", sp, "--out", tp], timeout=3600)
    if rc != 0:
        raise ToolError(f"harness (relay) failed:\n{o[-2000:]}")
    rows = read_ndjson(tp)
    jcfg = os.path.join(wd, "Trace_Relay.cfg")
    with open(jcfg, "w") as f:
        f.write("SPECIFICATION TSpec\n" + constants(k["members"], k["limit"], k["epochs"], k["sigs"], k["mids"], k["window"],
                                                   k["maxnet"], k["maxtree"], 0) + "POSTCONDITION Accepted\nCHECK_DEADLOCK FALSE\n")
    ctl = os.path.join(wd, "relay.ctl.json")
    with open(ctl, "w") as f:
        json.dump({"prop": prop}, f)
    res = tlc_judge("Trace_Relay", jcfg, {"TRACE": tp, "CTL": ctl}, f"judge-relay-replay-{prop}")
    return rows, res
