"""C17: all build configurations implement the same protocol. The harness is built once per feature set; each
build runs the same TLC-generated history; the merged trace is judged by Trace_Config.tla (Conf.tla's replicas)."""
import json
import os
import random

import tree
from common import (ToolError, build_harness, read_ndjson, require_mc_ok, run, seed, tlc_judge, tlc_mc, workdir,
                    write_ndjson)

I = lambda v: {"k": "int", "v": v}
BIG = 1 << 20


def model_check(wd, out):
    res = tlc_mc("Conf", "MC_Conf.cfg", "mc-conf", workers=8, timeout=900)
    require_mc_ok(res, "Conf.tla", must_take=["Prove"])
    out.add(states=res["distinct"], transitions=res["generated"])
    out.notes.append(f"TLC Conf.tla (replicated configurations incl. the stateless verifier, depth 2): {res['distinct']} distinct states; "
                     "SameRoots, SamePaths, CrossAccept hold")


def history(wd, rnd, n_hist, quick):
    """single-leaf writes, appends and deletions (batch shapes belong to C06/C08): the call SHAPES come from behaviours of
    Tree.tla (TLC -simulate, values incl. the default leaf), stretched over the positions of the real tree; deletions are
    aimed at existing leaves, at the leaf-count cursor, just beyond it and far beyond; members register and prove in between"""
    sc0, nb = tree.gen_sim(wd, "cfg", 3, [0, 1, 2], 1, 0, ["set", "delete", "append"], n_hist, 14, seed() + 17)
    pos_map = [0, 1, 2, 255, (1 << 19) - 1, 1 << 19, BIG - 2, BIG - 1]
    sc = []
    members = []
    written = []
    k = 0
    nxt = 0
    for op in sc0:
        if op["c"] == "reset":
            sc.append({"c": "reset"})
            members = []
            written = []
            nxt = 0
            # two members; the second history keeps everything low so that appends and the cursor interact
            low = (len([o for o in sc if o["c"] == "reset"]) % 2 == 0)
            for idx in ((3, 9) if low else (rnd.choice([0, 5, 255]), rnd.choice([1 << 19, BIG - 1, (1 << 19) + 77]))):
                s = {"k": "rnd", "s": rnd.randrange(1, 1 << 30)}
                lim = I(rnd.choice([1, 100, 65536]))
                sc.append({"c": "reg", "i": idx, "s": s, "lim": lim})
                members.append((idx, s, lim))
                nxt = max(nxt, idx + 1)
            continue
        o = dict(op)
        if op["c"] == "delete":
            o["i"] = rnd.choice([nxt, nxt, nxt + 1, max(nxt - 1, 0), pos_map[op["i"] % len(pos_map)], BIG])
            while any(o["i"] == m[0] for m in members):
                o["i"] += 1
        elif op["c"] == "set":
            o["i"] = pos_map[o["i"] % len(pos_map)] if not low else o["i"] + 10
            while any(o["i"] == m[0] for m in members):
                o["i"] += 3
            if rnd.random() < 0.15:
                o["i"] = rnd.choice([BIG, BIG + 1])           # a write beyond the capacity: rejected by every backend, nothing may move
            if o["i"] < BIG:
                nxt = max(nxt, o["i"] + 1)
        elif op["c"] == "append":
            if nxt < BIG:
                nxt += 1
        if "v" in o:
            o["v"] = [0, 1, 2][o["v"]] if o["v"] in (0, 1, 2) else o["v"]
        sc.append(o)
        if o["c"] == "set" and o.get("v") and o["i"] < BIG:
            written.append(o["i"])
        k += 1
        if k % 6 == 3:
            # the node restarts (persistent builds: flush, drop, re-create on the same location; the others carry on), and a
            # leaf written BEFORE the restart is removed afterwards
            sc.append({"c": "restart"})
            if written:
                w = written.pop(rnd.randrange(len(written)))
                sc.append({"c": "delete", "i": w})
                sc.append({"c": "path", "i": w})
        if k % 4 == 0:
            sc.append({"c": "path", "i": rnd.choice([m[0] for m in members] + [0, min(nxt, BIG - 1), 1 << 19])})
        if k % (5 if quick else 3) == 0:
            idx, s, lim = rnd.choice(members)
            sc.append({"c": "prove", "s": s, "idx": idx, "lim": lim, "mid": I(0), "e": {"k": "rnd", "s": rnd.randrange(1, 1 << 30)},
                       "sig": {"len": rnd.choice([0, 5, 137]), "seed": rnd.randrange(1 << 30)}})
    return sc, nb


def run_c17(tier, out):
    wd = workdir(f"C17-{tier}")
    rnd = random.Random(seed() * 49979687 + 17)
    quick = tier == "quick"
    model_check(wd, out)
    configs = ["default", "optimal", "full", "arkzkey", "stateless"]
    bins = {}
    merged = []
    for c in configs:
        b, log = build_harness(c, allow_fail=True)
        if b is None:
            merged.append({"t": "build", "cfg": c, "res": "build_error", "log": log[-600:]})
        else:
            merged.append({"t": "build", "cfg": c, "res": "ok"})
            bins[c] = b
    sc, nb = history(wd, rnd, 4 if quick else 16, quick)
    sp = os.path.join(wd, "history.ndjson")
    write_ndjson(sp, sc)
    out.notes.append(f"{nb} TLC-simulated histories of single writes / appends / deletions mapped to boundary positions of the depth-20 tree, "
                     f"{sum(1 for o in sc if o['c'] == 'prove')} proving steps, {len(bins)} of {len(configs)} configurations built")
    allmsgs = []
    for c, b in bins.items():
        if c == "stateless":
            continue
        tp = os.path.join(wd, f"produce-{c}.ndjson")
        mp = os.path.join(wd, f"msgs-{c}.ndjson")
        rc, o = run([b, "cfgrun", "--phase", "produce", "--scenario", sp, "--msgs", mp, "--out", tp], timeout=7200)
        if rc != 0:
            raise ToolError(f"harness ({c}) failed:\n{o[-2000:]}")
        merged += read_ndjson(tp)
        allmsgs += read_ndjson(mp)
    amp = os.path.join(wd, "msgs-all.ndjson")
    write_ndjson(amp, allmsgs)
    for c, b in bins.items():
        tp = os.path.join(wd, f"verify-{c}.ndjson")
        rc, o = run([b, "cfgrun", "--phase", "verify", "--scenario", sp, "--msgs", amp, "--out", tp], timeout=7200)
        if rc != 0:
            raise ToolError(f"harness ({c}) failed:\n{o[-2000:]}")
        merged += read_ndjson(tp)
    tp = os.path.join(wd, "merged.trace.ndjson")
    write_ndjson(tp, merged)
    res = tlc_judge("Trace_Config", "Trace_Config.cfg", {"TRACE": tp}, "judge-C17", timeout=3000, xmx="8g")
    if res["tool_error"]:
        raise ToolError("judge failed:\n" + res["tool_error"])
    if res["depth"] is None or res["depth"] - 1 != len(merged):
        raise ToolError(f"judge consumed {res['depth']} of {len(merged)} lines")
    for line in res["dev"]:
        ev = merged[line - 1]
        brief = {k: (v if len(json.dumps(v)) < 300 else "<long>") for k, v in ev.items()}
        out.violation(f"configurations disagree: {json.dumps(brief)[:600]} (trace line {line})", {"kind": "config", "event": brief, "history": sc})
    # negative control: one root of one configuration altered
    neg = [dict(r) for r in merged]
    t = max(i for i, r in enumerate(neg) if r["t"] == "step" and isinstance(r.get("root"), list))
    rr = list(neg[t]["root"])
    rr[0] ^= 1
    neg[t]["root"] = rr
    cp = os.path.join(wd, "neg.ndjson")
    write_ndjson(cp, neg[:t + 1])
    r2 = tlc_judge("Trace_Config", "Trace_Config.cfg", {"TRACE": cp}, "judge-C17-neg")
    if (t + 1) not in r2["dev"]:
        raise ToolError("negative control: the configuration judge accepted a corrupted trace")
    kinds = {}
    for r in merged:
        kinds[r["t"]] = kinds.get(r["t"], 0) + 1
    xs = [r for r in merged if r["t"] == "xverify"]
    distinct = {(r["t"], r.get("cfg"), r.get("producer"), r.get("hist"), r.get("k")) for r in merged}
    for r in [r for r in merged if r["t"] in ("key", "keyfiles")][:2] + xs[:2]:
        out.sample({k: (v if len(json.dumps(v)) < 300 else "<long>") for k, v in r.items()})
    out.add(evaluations=len(merged), distinct_nontrivial=len(distinct), traces_validated_against_impl=1 if not res["dev"] else 0,
            configurations_built=sorted(bins), events=kinds, messages=len(allmsgs), cross_verifications=len(xs), negative_control_rejected=True,
            rule="one evaluation = one recorded step (root after a history step, membership path, key digest, key-file comparison, "
                 "message production, verification of another configuration's message) in one build configuration; "
                 "distinct = distinct (kind, configuration, producer, history step)",
            checker_cmd="tlc Trace_Config.tla on the merged trace of all builds")
