"""The repository's own relay application (rln-cli example `relay`, unmodified) driven through stdin with command
scripts derived from TLC behaviours of Relay.tla (Window = 1), its stdout transcript split into one line per design
action and validated by Trace_RelayCli.tla."""
import json
import os
import random
import re
import subprocess

import relay
from common import REPO, ToolError, run, seed, tlc_judge, workdir, write_ndjson

K = dict(members=[1, 2, 3], limit=1, epochs=[1], sigs=[1, 2, 3], mids=[0, 1], window=1, maxnet=8, maxtree=3)
ANSI = re.compile(r"\x1B\[[0-9;]*[A-Za-z]")


def build_example():
    rc, o = run(["cargo", "build", "--offline", "-p", "rln-cli", "--example", "relay"], cwd=REPO, env={"CARGO_NET_OFFLINE": "true"}, timeout=3600)
    exe = os.path.join(REPO, "target", "debug", "examples", "relay")
    if rc != 0 or not os.path.exists(exe):
        raise ToolError("the relay example does not build:\n" + o[-2000:])
    return exe


def scripts_from_behaviours(behs, n, rnd):
    """a behaviour of the design becomes a command script: registrations in the order of first appearance, every Publish
    a `send` (the application validates at once), everything else is the application's own business"""
    out = []
    for b in behs:
        order, cmds = {}, []
        for op in b:
            if op["a"] == "reg" and op["m"] not in order:
                order[op["m"]] = len(order)
                cmds.append(("register",))
            elif op["a"] in ("pub", "pubrej"):
                u = order.get(op["m"], 7)                       # an index nobody registered
                cmds.append(("send", u, op["mid"], op["sig"]))
        sends = [c for c in cmds if c[0] == "send"]
        if len(sends) >= 3:
            out.append(cmds + [("send", 0, 0, 1), ("send", 0, 0, 2), ("send", 0, 0, 2)])   # tail: a sure double signal (or a refusal)
    rnd.shuffle(out)
    # prefer scripts with several sends of one member under one message id
    out.sort(key=lambda cs: -len([c for c in cs if c[0] == "send" and c[2] == 0]))
    return out[:n]


def run_script(exe, cmds):
    text = "".join(("register\n" if c[0] == "register" else f"send -u {c[1]} -m {c[2]} -s signal{c[3]}\n") for c in cmds) + "exit\n"
    p = subprocess.run([exe], input=text.encode(), stdout=subprocess.PIPE, stderr=subprocess.STDOUT, cwd=os.path.join(REPO, "rln-cli"), timeout=3600)
    outp = ANSI.sub("", p.stdout.decode(errors="replace"))
    segs = outp.split("\n> ")
    return p.returncode, segs


def events(cmds, rc, segs):
    ev = [{"t": "reset", "res": "ok" if "RLN instance initialized successfully" in segs[0] else "err"}]
    npub = 0
    for k, c in enumerate(cmds):
        seg = segs[k + 1] if k + 1 < len(segs) else ""
        if c[0] == "register":
            m = re.search(r"Registered User Index: (\d+)\s*\n\+ Identity secret hash: (\d+)", seg)
            ev.append({"t": "register", "index": int(m.group(1)), "secret": m.group(2)} if m else {"t": "unparsed", "cmd": list(c), "out": seg[:300]})
            continue
        u, mid, sig = c[1], c[2], c[3]
        base = {"m": u + 1, "e": 1, "mid": mid, "sig": sig}
        if "Proof generated successfully" not in seg:
            if "Proof generation error" in seg:
                ev.append(dict(base, t="pubrej", out=seg.strip()[:200]))
            else:
                ev.append({"t": "unparsed", "cmd": list(c), "out": seg[:300]})
            continue
        npub += 1
        ev.append(dict(base, t="pub"))
        if "Message verified and accepted" in seg:
            ev.append({"t": "val", "i": npub, "cls": "valid"})
        elif "this exact message and signal has already been sent" in seg:
            ev.append({"t": "val", "i": npub, "cls": "dup"})
        elif "DUPLICATE message ID detected" in seg:
            ev.append({"t": "val", "i": npub, "cls": "spam"})
            m = re.search(r"Reveal identity secret hash: (\d+)\s*\nUser index (\d+) has been SLASHED", seg)
            ev.append({"t": "slash", "i": npub, "leaked": m.group(1), "index": int(m.group(2))} if m else {"t": "unparsed", "cmd": list(c), "out": seg[:300]})
        elif "Verification failed" in seg:
            ev.append({"t": "val", "i": npub, "cls": "invalid"})
        else:
            ev.append({"t": "unparsed", "cmd": list(c), "out": seg[:300]})
    return ev


def run_cli(prop, tier, out):
    wd = workdir(f"{prop}-{tier}-relaycli")
    quick = tier == "quick"
    rnd = random.Random(seed() * 97 + 5)
    exe = build_example()
    consts = relay.constants(K["members"], K["limit"], K["epochs"], K["sigs"], K["mids"], K["window"], K["maxnet"], K["maxtree"], 12)
    behs = relay.gen_behaviours(wd, "cli", consts, 12, 300 if quick else 2000, seed() * 17 + 3)
    scripts = scripts_from_behaviours(behs, 3 if quick else 20, rnd)
    if not scripts:
        raise ToolError("no usable behaviour for the relay application")
    rows, classes = [], set()
    for cmds in scripts:
        rc, segs = run_script(exe, cmds)
        ev = events(cmds, rc, segs)
        rows += ev
        classes |= {e.get("cls") or e["t"] for e in ev}
    tp = os.path.join(wd, "cli.trace.ndjson")
    write_ndjson(tp, rows)
    jcfg = os.path.join(wd, "Trace_RelayCli.cfg")
    with open(jcfg, "w") as f:
        f.write("SPECIFICATION TSpec\n" + relay.constants(K["members"], K["limit"], K["epochs"], K["sigs"], K["mids"], K["window"], 40, K["maxtree"], 0)
                + "INVARIANTS TypeOK RateLimit HonestSafe SlashedOut OnePerSlot\nPOSTCONDITION Accepted\nCHECK_DEADLOCK FALSE\n")
    res = tlc_judge("Trace_RelayCli", jcfg, {"TRACE": tp}, f"judge-relaycli-{prop}")
    if res["tool_error"]:
        raise ToolError("relay application judge failed:\n" + res["tool_error"])
    if res["depth"] is None or res["depth"] - 1 != len(rows):
        raise ToolError(f"relay application judge consumed {res['depth']} of {len(rows)} lines")
    for line in res["dev"]:
        out.violation(f"the relay application's reaction {json.dumps(rows[line - 1])[:300]} is not a step of Relay.tla (trace line {line}): "
                      f"{res['why'].get(line, '')[:500]}", {"kind": "relaycli", "event": rows[line - 1]})
    # negative control: one reaction of the application altered
    neg = [dict(r) for r in rows]
    t = next((i for i, r in enumerate(neg) if r["t"] == "val" and r["cls"] == "valid"), None)
    if t is not None:
        neg[t]["cls"] = "dup"
        cp = os.path.join(wd, "cli-neg.ndjson")
        write_ndjson(cp, neg[:t + 1])
        r2 = tlc_judge("Trace_RelayCli", jcfg, {"TRACE": cp}, f"judge-relaycli-{prop}-neg")
        if (t + 1) not in r2["dev"]:
            raise ToolError("negative control: the relay application judge accepted an altered reaction")
    out.notes.append(f"relay application (rln-cli example, unmodified): {len(scripts)} command scripts from TLC behaviours, {len(rows)} design "
                     f"actions validated by Trace_RelayCli.tla; reactions seen: {sorted(c for c in classes if c)}")
    return dict(relaycli_actions=len(rows), relaycli_scripts=len(scripts), relaycli_classes=sorted(c for c in classes if c))
