"""C18: results do not depend on thread count or interleaving. Conc.tla (all interleavings of the model);
pool-size processes, shared-instance threads and drop/re-create cycles judged by Trace_Conc.tla."""
import json
import os
import shutil

from common import (ToolError, build_harness, read_ndjson, require_mc_ok, run, seed, tlc_judge, tlc_mc, workdir, write_ndjson)


def run_c18(tier, out):
    wd = workdir(f"C18-{tier}")
    quick = tier == "quick"
    cfg = os.path.join(wd, "MC_Conc.cfg")
    with open(cfg, "w") as f:
        f.write(f"SPECIFICATION Spec\nCONSTANTS\n  N = 3\n  K = {2 if quick else 3}\n  Calls = {{\"verify\", \"get_root\"}}\n  MaxTries = 3\n"
                "INVARIANTS Linearisable InitOnce NoEarlyResponse BoundedTries\nPROPERTIES Termination OpenSucceedsWhenFree\nCHECK_DEADLOCK FALSE\n")
    res = tlc_mc("Conc", cfg, "mc-conc", workers=8, timeout=3000)
    require_mc_ok(res, "Conc.tla", must_take=["Begin", "StartInit", "FinishInit", "Respond", "Release", "TryOpen"])
    out.add(states=res["distinct"], transitions=res["generated"])
    out.notes.append(f"TLC Conc.tla (3 readers x {2 if quick else 3} calls, once-cell globals, lock release / open with retry; all "
                     f"interleavings, liveness under weak fairness): {res['distinct']} distinct states; Linearisable, InitOnce, "
                     "NoEarlyResponse, BoundedTries, Termination, OpenSucceedsWhenFree hold")
    # BatchConc.tla: the parallel re-hash of a batch update (one task per node, a shared map behind a read/write lock):
    # every schedule of every batch gives the sequential result; a parent that does not wait for its right child is refuted
    bstates = 0
    bruns = [("MC_BatchConc.cfg", "depth 2"), ("MC_BatchConc3.cfg", "depth 3")]
    if not quick:
        bruns.append(("MC_BatchConc3t.cfg", "depth 3, two leaf values, batches up to 3: 660 342 states"))
    for cfgname, what in bruns:
        r2 = tlc_mc("BatchConc", cfgname, f"mc-batchconc-{cfgname[3:-4]}", workers=8, timeout=3000)
        require_mc_ok(r2, f"BatchConc.tla {what}", must_take=["Check", "Read", "Join"])
        bstates += r2["distinct"]
    r3 = tlc_mc("BatchConc", "MC_BatchConc_neg.cfg", "mc-batchconc-neg", workers=2, timeout=900, coverage=False)
    if "Invariant Deterministic is violated" not in r3["out"]:
        raise ToolError("BatchConc.tla: the variant whose parent task does not wait for its right child was not refuted (vacuous schedule exploration)")
    out.add(states=bstates)
    out.notes.append(f"TLC BatchConc.tla (batch_recalculate of the persistent backend as tasks over a locked shared map; every lock acquisition one step; "
                     f"all schedules of all batches at depth 2 and 3): {bstates} distinct states; Deterministic (= the sequential BRecalc of TreePmOps), "
                     "NoRacyRead, PairsTogether, Termination hold; the faulty join variant is refuted")
    binary, _ = build_harness("default")
    rows = []
    msg = os.path.join(wd, "poolmsg.json")
    sizes = ["1", "2", "4", "16"]
    for k, n in enumerate(sizes):
        tp = os.path.join(wd, f"pool{n}.ndjson")
        cmd = [binary, "conc", "--mode", "pool", "--seed", str(seed()), "--out", tp] + (["--msg-out", msg] if k == 0 else ["--msg-in", msg])
        rc, o = run(cmd, env={"RAYON_NUM_THREADS": n}, timeout=3600)
        if rc != 0:
            raise ToolError(f"harness (pool {n}) failed:\n{o[-2000:]}")
        rows += read_ndjson(tp)
    tp = os.path.join(wd, "shared.ndjson")
    rc, o = run([binary, "conc", "--mode", "shared", "--seed", str(seed()), "--threads", "16", "--calls", "50" if quick else "400", "--out", tp], timeout=3600)
    if rc != 0:
        raise ToolError(f"harness (shared) failed:\n{o[-2000:]}")
    rows += read_ndjson(tp)
    tp = os.path.join(wd, "reopen.ndjson")
    d = os.path.join(wd, "reopen-dir")
    rc, o = run([binary, "conc", "--mode", "reopen", "--dir", d, "--n", "20" if quick else "100", "--out", tp], timeout=3600)
    shutil.rmtree(d, ignore_errors=True)
    if rc != 0:
        raise ToolError(f"harness (reopen) failed:\n{o[-2000:]}")
    rows += read_ndjson(tp)
    tp = os.path.join(wd, "conc.trace.ndjson")
    write_ndjson(tp, rows)
    res = tlc_judge("Trace_Conc", "Trace_Conc.cfg", {"TRACE": tp}, "judge-C18", timeout=3000, xmx="8g")
    if res["tool_error"]:
        raise ToolError("judge failed:\n" + res["tool_error"])
    if res["depth"] is None or res["depth"] - 1 != len(rows):
        raise ToolError(f"judge consumed {res['depth']} of {len(rows)} lines")
    for line in res["dev"]:
        ev = rows[line - 1]
        brief = {k: (v if len(json.dumps(v)) < 300 else "<long>") for k, v in ev.items()}
        out.violation(f"result depends on threads/interleaving or re-creation failed: {json.dumps(brief)[:600]} (trace line {line})",
                      {"kind": "conc", "event": brief})
    # negative control: one concurrent response altered
    neg = [dict(r) for r in rows]
    t = next((i for i, r in enumerate(neg) if r["t"] == "call" and r["resp"].get("res") == "ok"), None)
    if t is None and not res["dev"]:
        raise ToolError("no successful concurrent call was recorded")
    if t is not None:
        neg[t]["resp"] = {"res": "err"}
        cp = os.path.join(wd, "neg.ndjson")
        write_ndjson(cp, neg[:t + 1])
        r2 = tlc_judge("Trace_Conc", "Trace_Conc.cfg", {"TRACE": cp}, "judge-C18-neg")
        if (t + 1) not in r2["dev"]:
            raise ToolError("negative control: the concurrency judge accepted a corrupted trace")
    calls = [r for r in rows if r["t"] == "call"]
    distinct = {(r["t"], r.get("thr"), r.get("call"), r.get("threads"), r.get("n")) for r in rows}
    for r in [r for r in rows if r["t"] == "pool"][:1] + calls[:2] + [r for r in rows if r["t"] == "reopen"][:1]:
        out.sample({k: (v if len(json.dumps(v)) < 200 else "<long>") for k, v in r.items()})
    out.add(evaluations=len(rows), distinct_nontrivial=len(distinct), traces_validated_against_impl=1 if not res["dev"] else 0,
            pool_sizes=sizes, concurrent_calls=len(calls), threads=16, reopen_cycles=sum(1 for r in rows if r["t"] == "reopen"),
            max_reopen_ms=max([r["ms"] for r in rows if r["t"] in ("reopen", "handover")] or [0]),
            handover_cycles=sum(1 for r in rows if r["t"] == "handover"),
            handover_state_kept=sum(1 for r in rows if r["t"] == "handover" and r.get("kept")), negative_control_rejected=True,
            schedules="sampled by the OS scheduler, not enumerated (the exhaustive part is the model)",
            rule="one evaluation = one pool-size transcript, one concurrent read-only call on the shared instance (compared with its "
                 "sequential response), one thread-completion record or one drop/re-create cycle; distinct = distinct (kind, thread, call, pool size, cycle)",
            checker_cmd="tlc Trace_Conc.tla")
