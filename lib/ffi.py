"""C11: FFI == Rust API. Ffi.tla lock-step model; lock-step executions judged by Trace_Ffi.tla."""
import json
import os
import random

import tree
from common import (SPEC, ToolError, build_harness, read_ndjson, require_mc_ok, run, seed, tlc_judge, tlc_mc, workdir,
                    write_ndjson)

I = lambda v: {"k": "int", "v": v}


def model_check(tier, wd, out):
    cfg = os.path.join(wd, "MC_Ffi.cfg")
    with open(cfg, "w") as f:
        f.write("SPECIFICATION Spec\nCONSTANTS\n  Depth = 2\n  Vals = {0, 1, 2}\n  MaxBatch = 2\nINVARIANT LockStep\nPROPERTY FailedUnchanged\nCHECK_DEADLOCK FALSE\n")
    res = tlc_mc("Ffi", cfg, "mc-ffi", workers=8, timeout=1500)
    require_mc_ok(res, "Ffi.tla", must_take=["Both"])
    out.add(states=res["distinct"], transitions=res["generated"])
    out.notes.append(f"TLC Ffi.tla (two replicas, depth 2, incl. the sequential batch wrapper): {res['distinct']} distinct states, "
                     f"{res['generated']} transitions; LockStep and FailedUnchanged hold")


def reads(rnd, cap):
    pos = rnd.choice([0, 1, cap - 1, cap, rnd.randrange(cap)])
    return rnd.choice([{"c": "get_leaf", "i": pos}, {"c": "get_proof", "i": pos}, {"c": "get_root"}, {"c": "leaves_set"}, {"c": "get_meta"}])


def from_tree_ops(ops, rnd, d):
    cap = 1 << d
    sc = []
    for op in ops:
        c = op["c"]
        if c == "reset":
            sc.append({"c": "reset", "d": op["d"]})
            continue
        if c == "override" and rnd.random() < 0.4:
            sc.append({"c": "seqbatch", "vs": op["vs"], "rem": [r for r in op["rem"] if r < 256]})
        elif c == "override":
            sc.append({"c": "override", "s": op["s"], "vs": op["vs"], "rem": [r for r in op["rem"] if r < 256]})
        elif c in ("set", "delete", "append", "range", "init"):
            sc.append(dict(op))
        if rnd.random() < 0.5:
            sc.append(reads(rnd, cap))
        if rnd.random() < 0.08:
            sc.append({"c": "set_meta", "m": [rnd.randrange(256) for _ in range(rnd.choice([0, 1, 9]))]})
        if rnd.random() < 0.04:
            sc.append({"c": "flush"})
        if rnd.random() < 0.05:
            sc.append({"c": "set_tree", "d": d})             # re-initialisation in the middle of a history
    return sc


def lifecycle(rnd):
    """re-initialisation in every kind of state: empty tree with metadata, after writes, after a flush"""
    m = [rnd.randrange(256) for _ in range(4)]
    return [{"c": "reset", "d": 20}, {"c": "set_meta", "m": m}, {"c": "get_meta"}, {"c": "set_tree", "d": 20}, {"c": "get_meta"}, {"c": "get_root"},
            {"c": "set", "i": 3, "v": 9}, {"c": "set_meta", "m": m + [1]}, {"c": "set_tree", "d": 20}, {"c": "get_meta"}, {"c": "leaves_set"},
            {"c": "append", "v": 4}, {"c": "flush"}, {"c": "set_tree", "d": 20}, {"c": "get_leaf", "i": 0}, {"c": "get_meta"},
            {"c": "reset", "d": 3}, {"c": "set_tree", "d": 3}, {"c": "set_meta", "m": m}, {"c": "set_tree", "d": 3}, {"c": "get_meta"},
            {"c": "init", "vs": [1, 2]}, {"c": "get_meta"},
            # calls that must FAIL on a context that holds leaves, and leave it as it was (added after C11-m10: a rejected
            # initialisation had already replaced the tree - on both surfaces alike, so only "unchanged" can tell)
            {"c": "set", "i": 5, "v": 7}, {"c": "leaves_set"},
            {"c": "init", "vs": list(range(1, 10))}, {"c": "leaves_set"}, {"c": "get_leaf", "i": 5}, {"c": "get_root"},
            {"c": "range", "s": 7, "vs": [1, 2]}, {"c": "get_root"},
            {"c": "override", "s": 6, "vs": [1, 2, 3], "rem": [0]}, {"c": "get_leaf", "i": 0}, {"c": "get_root"},
            {"c": "init", "vs": list(range(1, 30))}, {"c": "leaves_set"}, {"c": "get_meta"}]


def full_tree():
    """the sequential batch on a tree whose leaf count has reached the capacity: removal-only batches still apply,
    batches with leaves are refused - on both surfaces alike (small tree and the real depth)"""
    sc = []
    for d in (3, 20):
        last = (1 << d) - 1
        sc += [{"c": "reset", "d": d}, {"c": "set", "i": 2, "v": 6}, {"c": "set", "i": last, "v": 9}, {"c": "leaves_set"},
               {"c": "seqbatch", "vs": [], "rem": [2]}, {"c": "get_root"}, {"c": "get_leaf", "i": 2},
               {"c": "seqbatch", "vs": [5], "rem": []}, {"c": "get_root"},
               {"c": "seqbatch", "vs": [5], "rem": [2]}, {"c": "get_root"},
               {"c": "override", "s": 1, "vs": [], "rem": [1, 2]}, {"c": "get_root"},
               {"c": "seqbatch", "vs": [], "rem": [0, 7]}, {"c": "get_root"}, {"c": "leaves_set"}]
    return sc


def stateless_calls(rnd):
    sc = []
    for n in (0, 1, 135, 136, 137, 500):
        sc.append({"c": "hash", "m": [rnd.randrange(256) for _ in range(n)]})
    for n in range(1, 9):
        sc.append({"c": "poseidon", "vs": [rnd.choice([0, 1, 7, {"k": "pm", "v": 1}, {"k": "rnd", "s": rnd.randrange(1, 1 << 30)}]) for _ in range(n)]})
    for m in ([], [0, 1, 2, 3, 4, 5, 6, 7, 8, 9], [7] * 33):
        sc += [{"c": "seeded_key_gen", "m": m}, {"c": "seeded_ext_key_gen", "m": m}]
    sc += [{"c": "key_gen"}, {"c": "ext_key_gen"}]
    return sc


def protocol_calls(rnd, n):
    sc = []
    for k in range(n):
        s = {"k": "rnd", "s": rnd.randrange(1, 1 << 30)}
        idx = rnd.choice([0, 5, (1 << 19) + 1, (1 << 20) - 1])
        # registration through both surfaces: the leaf is the library-independent value of H(H(s), limit) is not needed
        # here - any leaf works for lock-step; membership is only needed for the verdicts to be interesting
        sig = {"len": rnd.choice([0, 3, 137]), "seed": rnd.randrange(1 << 30)}
        sc += [{"c": "set", "i": idx, "v": {"k": "rnd", "s": 5 + k}},
               {"c": "prove_tree", "sec": s, "idx": idx, "lim": I(10), "mid": I(rnd.randrange(10)), "e": I(3), "sig": sig, "store": f"m{k}"},
               {"c": "verify", "msg": f"m{k}", "expect": True},
               {"c": "verify", "msg": f"m{k}", "from": "cross", "expect": True},          # A's proof on B and B's proof on A
               {"c": "verify_rln", "msg": f"m{k}", "sig": sig, "cell_init": True},
               {"c": "verify_rln", "msg": f"m{k}", "sig": sig, "from": "cross", "cell_init": False},
               {"c": "verify_roots", "msg": f"m{k}", "sig": sig, "roots": ["msgroot"]},
               {"c": "verify_roots", "msg": f"m{k}", "sig": sig, "roots": ["other"], "cell_init": True},
               {"c": "verify_roots", "msg": f"m{k}", "sig": sig, "roots": []},
               {"c": "verify_rln", "msg": f"m{k}", "sig": sig, "trunc": rnd.choice([0, 100, 290]), "cell_init": True},
               {"c": "verify", "msg": f"m{k}", "trunc": rnd.choice([0, 127, 287]), "cell_init": True},
               {"c": "prove_tree", "sec": s, "idx": 1 << 20, "lim": I(10), "mid": I(1), "e": I(3), "sig": sig},
               {"c": "prove_tree", "sec": s, "idx": idx, "lim": I(10), "mid": I(10), "e": I(3), "sig": sig},
               {"c": "prove_tree", "sec": s, "idx": idx, "lim": I(10), "mid": I(1), "e": I(3), "sig": sig, "trunc": 50}]
        if k > 0:
            sc += [{"c": "recover", "msg": f"m{k}", "msg2": f"m{k-1}"}, {"c": "recover", "msg": f"m{k}", "msg2": f"m{k}"}]
        if k < 2:
            # the same member double-signals (the secret comes out) and signals in another epoch (success with an EMPTY output)
            mid = I(4)
            sig2 = {"len": 5, "seed": rnd.randrange(1 << 30)}
            sc += [{"c": "prove_tree", "sec": s, "idx": idx, "lim": I(10), "mid": mid, "e": I(3), "sig": sig, "store": f"d{k}a"},
                   {"c": "prove_tree", "sec": s, "idx": idx, "lim": I(10), "mid": mid, "e": I(3), "sig": sig2, "store": f"d{k}b"},
                   {"c": "prove_tree", "sec": s, "idx": idx, "lim": I(10), "mid": mid, "e": I(4), "sig": sig2, "store": f"d{k}c"},
                   {"c": "recover", "msg": f"d{k}a", "msg2": f"d{k}b"},
                   {"c": "recover", "msg": f"d{k}a", "msg2": f"d{k}c"},
                   {"c": "recover", "msg": f"d{k}c", "msg2": f"d{k}b"}]
    return sc


def malformed(rnd):
    return [{"c": "set", "i": 2, "rawbytes": []}, {"c": "set", "i": 2, "rawbytes": [1, 2, 3]}, {"c": "set", "i": 1 << 20, "v": 3},
            {"c": "range", "s": (1 << 20) - 1, "vs": [1, 2]}, {"c": "delete", "i": 1 << 20}, {"c": "get_leaf", "i": 1 << 20},
            {"c": "get_proof", "i": 1 << 20}, {"c": "override", "s": 0, "vs": [], "rem": []}, {"c": "seqbatch", "vs": [], "rem": []},
            {"c": "init", "vs": []}, {"c": "set_tree", "d": 20}]


def run_c11(tier, out):
    wd = workdir(f"C11-{tier}")
    rnd = random.Random(seed() * 32452843 + 11)
    quick = tier == "quick"
    model_check(tier, wd, out)
    binary, _ = build_harness("default")
    sc = []
    # spec -> impl: behaviours of Tree.tla (TLC -simulate) mapped onto the C surface, depth 3
    tsc, nb = tree.gen_sim(wd, "ffi3", 3, [0, 1, 2], 2, 2, tree.RLN_OPS, 8 if quick else 80, 25, seed() + 5)
    sc += from_tree_ops(tsc, rnd, 3)
    out.notes.append(f"{nb} TLC-simulated tree behaviours (depth 3, incl. batch, sequential batch, initialisation) mapped to FFI calls")
    # impl -> spec: seeded histories at depth 20 with boundary positions
    big = tree.gen_random_big(rnd, tree.RLN_OPS, 3 if quick else 30, 20)
    for op in big:
        op.pop("probe", None)
    sc += from_tree_ops(big, rnd, 20)
    sc += lifecycle(rnd)
    sc += full_tree()
    sc += [{"c": "reset", "d": 20}] + stateless_calls(rnd)
    for op in malformed(rnd):
        sc += [{"c": "reset", "d": 20}, {"c": "set", "i": 1, "v": 4}, op, {"c": "get_root"}]     # (an API panic ends a history: one each)
    sc += [{"c": "reset", "d": 20, "params": True}] + protocol_calls(rnd, 3 if quick else 25)      # constructor with resource buffers
    sc += [{"c": "reset", "d": 20, "params": True}] + lifecycle(rnd)[1:8]
    sp = os.path.join(wd, "ffi.scen.ndjson")
    tp = os.path.join(wd, "ffi.trace.ndjson")
    write_ndjson(sp, sc)
    rc, o = run([binary, "ffi", "--scenario", sp, "--out", tp], timeout=7200)
    if rc != 0:
        raise ToolError("harness failed:\n" + o[-2000:])
    rows = read_ndjson(tp)
    res = tlc_judge("Trace_Ffi", "Trace_Ffi.cfg", {"TRACE": tp}, "judge-C11", timeout=3000, xmx="8g")
    if res["tool_error"]:
        raise ToolError("judge failed:\n" + res["tool_error"])
    if res["depth"] is None or res["depth"] - 1 != len(rows):
        raise ToolError(f"judge consumed {res['depth']} of {len(rows)} lines")
    for line in res["dev"]:
        ev = rows[line - 1]
        k = ev["k"]
        start = k
        while start > 0 and sc[start]["c"] != "reset":
            start -= 1
        brief = {kk: ev[kk] for kk in ev if kk not in ("obs_api", "obs_ffi")}
        out.violation(f"FFI and Rust API disagree on {json.dumps(brief)[:500]} (trace line {line}): {res['why'].get(line, '')}",
                      {"kind": "ffi", "scenario": sc[start:k + 1], "event": brief})
    # negative control: flip one success flag
    neg = [dict(r) for r in rows[:80]]
    t = next(i for i, r in enumerate(neg) if r["t"] == "ffi" and "ffi" in r and r["ffi"]["ok"])
    neg[t]["ffi"] = dict(neg[t]["ffi"], ok=False)
    cp = os.path.join(wd, "neg.ndjson")
    write_ndjson(cp, neg)
    r2 = tlc_judge("Trace_Ffi", "Trace_Ffi.cfg", {"TRACE": cp}, "judge-C11-neg")
    if (t + 1) not in r2["dev"]:
        raise ToolError("negative control: the FFI judge accepted a corrupted trace")
    calls = [r for r in rows if r["t"] == "ffi"]
    fns = {}
    distinct = set()
    for r in calls:
        fns[r["op"]["c"]] = fns.get(r["op"]["c"], 0) + 1
        distinct.add((r["op"]["c"], r.get("api", {}).get("ok"), json.dumps({k: v for k, v in r["op"].items() if k not in ("m", "vs")}, sort_keys=True)))
    for r in calls[:3] + [r for r in calls if r["op"]["c"].startswith("verify")][:2]:
        out.sample({k: (v if len(json.dumps(v)) < 200 else "<long>") for k, v in r.items() if k not in ("obs_api", "obs_ffi")})
    out.add(evaluations=len(calls), distinct_nontrivial=len(distinct), traces_validated_against_impl=1 if not res["dev"] else 0,
            calls_per_function=fns, api_panics_skipped=sum(1 for r in calls if "skipped" in r), aborts=sum(1 for r in calls if r.get("abort")),
            negative_control_rejected=True,
            rule="one evaluation = one call issued through the extern C surface on instance A and through the Rust API on instance B "
                 "(lock-step, child process), with both instances observed afterwards; distinct = distinct (function, outcome, argument shape)",
            checker_cmd="tlc Trace_Ffi.tla on traces recorded by zkexec ffi")
