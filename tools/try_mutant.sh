#!/bin/bash
# try_mutant.sh <patch.diff> <prop> [<prop>...] : apply to /repo, run the quick checks, always revert
patch=$1; shift
cd /repo && git diff --quiet || { echo "/repo not clean"; exit 2; }
git -C /repo apply $patch || { echo "patch does not apply"; exit 2; }
for p in "$@"; do
  cd /verif && timeout 1800 ./check $p --tier quick > /verif/work/mut-$p.log 2>&1; rc=$?
  nv=$(grep -c "^VIOLATION" /verif/work/mut-$p.log)
  echo "MUTANT $(basename $(dirname $patch)) prop=$p exit=$rc violations=$nv"
  grep -A1 "^VIOLATION" /verif/work/mut-$p.log | head -4
done
git -C /repo checkout -- .
