#!/usr/bin/env python3
"""developer aid: group the deviations of one check run by (target, call, failed comparison)
usage: classify.py <workdir> [prop]   (re-judges every *.trace.ndjson in the workdir)"""
import collections, glob, json, os, re, subprocess, sys
wd = os.path.abspath(sys.argv[1])
prop = sys.argv[2] if len(sys.argv) > 2 else None
for tp in sorted(glob.glob(os.path.join(wd, "*.trace.ndjson"))):
    n = os.path.basename(tp)[:-len(".trace.ndjson")]
    ctl = os.path.join(wd, n + ".ctl.json")
    if prop:
        ctl = os.path.join(wd, n + ".cls.ctl.json")
        json.dump({"prop": prop, "kf": []}, open(ctl, "w"))
    env = dict(os.environ, TRACE=tp, TABLE=os.path.join(wd, n + ".tab.json"), CTL=ctl,
               JAVA_TOOL_OPTIONS="-Xss1g -Dtlc2.tool.queue.IStateQueue=StateDeque")
    out = subprocess.run(["tlc", "-workers", "1", "-metadir", "/verif/work/tlc/cls", "-cleanup", "-noGenerateSpecTE",
                          "-config", "/verif/spec/Trace_Tree.cfg", "/verif/spec/Trace_Tree.tla"], env=env,
                         stdout=subprocess.PIPE, stderr=subprocess.STDOUT, text=True, cwd="/verif/spec").stdout
    rows = [json.loads(l) for l in open(tp)]
    c = collections.Counter(); ex = {}
    devs = re.findall(r'^<<\s*"DEV",\s*(\d+),\s*(.*?)>>\s*$', out, re.M | re.S)
    txt = out
    for m in re.finditer(r'<<\s*"WHY",\s*(\d+),(.*?)(?=\n<<|\nModel checking|\nError)', txt, re.S):
        ln = int(m.group(1)); why = " ".join(m.group(2).split())
        e = rows[ln - 1]
        kinds = tuple(k for k in ['result', 'next', 'leaves', 'inner node', 'empties', 'rejected call', 'observation crashed', 'proof'] if k in why)
        key = (e['tgt'], e.get('op', {}).get('c'), kinds, e['res'])
        c[key] += 1
        ex.setdefault(key, (ln, e.get('op'), e['res'], (e.get('msg') or '')[:50], why[:160]))
    print("==", n, len(rows), "lines", sum(c.values()), "deviations")
    if "Error" in out and "DEV" not in out: print(out[-1500:])
    for k, v in sorted(c.items(), key=str):
        print(f"{v:5d} {k} e.g. {ex[k]}")
