#!/usr/bin/env python3
"""(re)writes /verif/seeded/*/meta.json from the agents' meta, my confirmation logs and the detection table below"""
import glob, json, os, re
DET = {
 "C01-m1": ("C01", "./check C01 --tier quick -> exit 1 (prove with limit 2^16 returns an error for a registered member)", ""),
 "C01-m2": ("C01", "./check C01 and ./check C07 --tier quick -> exit 1", "missed at first by C01 (caught by C07); C01 strengthened: every third member proves again right after a batch removal of two others, and the judge demands that the unmodified message of a registered identity is accepted"),
 "C02-m1": ("C02", "./check C02 --tier quick -> exit 1 (root set {0} accepted)", "missed at first; TamperCases gained the root-set classes zero / zeros / zero+cur"),
 "C02-m2": ("C02", "./check C02 and ./check C13 --tier quick -> exit 1 (declared length +1 accepted)", "patch ported to the repaired tree (patch_ported.diff): the bounds check of read_signal replaced by clamping"),
 "C03-m1": ("C03", "./check C03 --tier quick -> exit 1 (epochs differing in the top byte treated as equal)", "patch ported; missed at first; other-epoch classes now include e + 2^248, e + 2^252, e + 1"),
 "C03-m2": ("C03", "./check C03 --tier quick -> exit 1 (recovery with attached signal returns nothing)", "patch ported"),
 "C04-m1": ("C04", "./check C04 --tier quick -> exit 1 (root of the previous call published after only the limit changed)", "chains of consecutive calls differing in exactly one input were added to the scenario before this change was tried; demo adapted to calculate_rln_witness returning Result"),
 "C04-m2": ("C04", "./check C04 --tier quick -> exit 1 (y / nullifier of the previous message id)", "as C04-m1"),
 "C12-m1": ("C12", "./check C12 --tier quick -> exit 1 (success reported, raw verification rejects)", "missed at first; C12 now submits satisfiable non-member requests through the tree entry point (empty position, someone else's, other limit, removed member)"),
 "C12-m2": ("C12", "./check C12 --tier quick -> exit 1 (mid >= limit proves 'successfully' through generate_rln_proof)", "patch ported"),
 "C13-m1": ("C13", "./check C13 and ./check C02 --tier quick -> exit 1 (declared length 0 / -1 accepted)", "patch ported"),
 "C13-m2": ("C03", "./check C03 --tier quick -> exit 1 (error instead of 'no secret' for the same signal in two epochs)", "patch ported; on the repaired tree (compute_id_secret no longer panics) the change turns Ok+empty into an error, which is C03's clause, and no longer crashes; demo rewritten accordingly"),
 "C10-m1": ("C10", "./check C10 --tier quick -> exit 1 (witness with trailing bytes decodes)", ""),
 "C10-m2": ("C10", "./check C10 --tier quick -> exit 1 (empty vector reports 0 bytes read; witness with empty path rejected)", ""),
 "C14-m1": ("C14", "./check C14 --tier quick -> exit 1 (10 kB seed: RLN/FFI identity differs from protocol::seeded_keygen)", ""),
 "C14-m2": ("C14", "./check C14 --tier quick -> exit 1 (same unseeded identity in two threads)", ""),
 "C19-m1": ("C19", "./check C19 --tier quick -> exit 1 (Lt/Gt/Leq/Geq with an operand (p-1)/2)", ""),
 "C19-m2": ("C19", "./check C19 --tier quick -> exit 1 (Shr/Shl of operands >= 2^192 by 1..63)", ""),
 "C20-m1": ("C20", "./check C20 and ./check C19 --tier quick -> exit 1 (Lor of operands summing to p)", ""),
 "C05-m1": ("C05", "./check C05 --tier quick -> exit 1 (second of two assignments that differ by a swap inside pathElements gets the first one's witness)", "missed at first; every fourth assignment is now derived from the one evaluated just before it"),
 "C05-m2": ("C05", "./check C05 --tier quick -> exit 1 (input 2^64 evaluated as 0)", ""),
 "C06-m3": ("C06", "./check C06 --tier quick -> exit 1 (full backend: rejected range changed leaves)", ""),
 "C06-m4": ("C06", "./check C06 --tier quick -> exit 1 (pm: set of the stored value does not raise the mark)", ""),
 "C07-m3": ("C07", "./check C07 --tier quick -> exit 1 (optimal: stale inner node after an unaligned batch)", ""),
 "C07-m4": ("C07", "./check C07 --tier quick -> exit 1 (full backend, depth 10: proof of position >= 256 decodes to another position)", "missed at first; trait-level runs at depths 10 and 20 with sparse observation added"),
 "C16-m3": ("C16", "./check C16 --tier quick -> exit 1 (delete hit by an injected write failure reports ok)", ""),
 "C16-m4": ("C16", "./check C16 --tier quick -> exit 1 (crash right after an acknowledged flush: the batch written before it is gone)", "missed at first; crash points between calls with every write path isolated between two flushes added"),
 "C01-m3": ("C01", "./check C01 --tier quick -> exit 1 (member registered by a vacate-and-reassign batch, or before a restart, is refused a proof)", "missed by the main scenario at first (only the relay replay objected, for the wrong reason: fixed); history classes swap-batch and restart on a persistent location added"),
 "C01-m4": ("C01", "./check C01 --tier quick -> exit 1 (message with a signal above 1 MiB is not accepted)", "missed at first; one message with a 1 MiB + 4097 byte signal added"),
 "C02-m3": ("C02", "./check C02 and ./check C16 --tier quick -> exit 1 (after a restart the deletion of the sender's leaf does nothing, the message keeps verifying)", "missed at first; verifier-restart classes on a persistent location added, and the judge demands rejection once the sender's leaf was removed (not only agreement with the root the instance itself reports)"),
 "C02-m4": ("C02", "./check C02 --tier quick -> exit 1 (declared length + 2^32 accepted)", "missed at first; declared lengths len+2^32 / len+2^63 added (C13: also len+2^40), and the tamper classes are dealt over the messages without replacement so that every class is exercised in every run"),
 "C08-m3": ("C08", "./check C08 --tier quick -> exit 1 (full: stale inner nodes after an unsorted removal list)", ""),
 "C08-m4": ("C08", "./check C08 --tier quick -> exit 1 (optimal: re-hash stops early when the last parent of a level is unchanged)", ""),
 "C15-m3": ("C15", "./check C15 --tier quick -> exit 1 (full: removal list with a repeated index wipes an unnamed position)", ""),
 "C15-m4": ("C15", "./check C15 --tier quick -> exit 1 (pm: empty list reported after a range write that leaves a gap)", ""),
 "C03-m3": ("C03", "./check C03 --tier quick -> exit 1 (recovery panics on two messages with the same share)", ""),
 "C03-m4": ("C03", "./check C03 --tier quick -> exit 1 (secret 0 is not recovered)", "the check first answered with a tool error: its negative control picked a lenient line on the deviating trace; controls no longer mask established deviations"),
 "C04-m3": ("C04", "./check C04 --tier quick -> exit 1 (published root is the tree's, not the fold of the witness' commitment)", "missed at first; non-member witnesses (other limit, other secret, empty position) through the tree entry added"),
 "C04-m4": ("C04", "./check C04 --tier quick -> exit 1 (y / nullifier of the previous message id)", ""),
 "C10-m3": ("C10", "./check C10 --tier quick -> exit 1 (witness encoding missing its last bytes decodes)", ""),
 "C10-m4": ("C10", "./check C10 --tier quick -> exit 1 (narrow element after a wide one encoded with stale high limbs)", ""),
 "C11-m3": ("C11", "./check C11 --tier quick -> exit 1 (FFI reports failure where the API succeeds with an empty output: recovery across epochs)", "missed at first; double-signal and cross-epoch recovery added to the lock-step"),
 "C11-m4": ("C11", "./check C11 --tier quick -> exit 1 (FFI delete of an unset position succeeds and moves the leaf count)", ""),
 "C12-m3": ("C12", "./check C12 --tier quick -> exit 1 (witness with 19 / 21 levels proves 'successfully')", ""),
 "C12-m4": ("C12", "./check C12 --tier quick -> exit 1 (message id >= limit proves 'successfully' through the tree entry)", ""),
 "C13-m3": ("C13", "./check C13 --tier quick -> exit 1 (e + p accepted for a small external nullifier)", ""),
 "C13-m4": ("C13", "./check C13 --tier quick -> exit 1 (roots buffer with a trailing partial entry panics)", ""),
 "C14-m3": ("C14", "./check C14 --tier quick -> exit 1 (seed read through a short-read reader gives another identity)", "missed at first; seeds (and every byte-level input of the protocol executor) are now also delivered through readers that return 1, 7 or 64 bytes per call"),
 "C14-m4": ("C14", "./check C14 --tier quick -> exit 1 (threads of one process generate the same identities)", ""),
 "C09-m3": ("C09", "./check C09 --tier quick -> exit 1 (byte-level hash of a reader that reports Interrupted once returns the hash of a prefix)", "missed at first; inputs are also delivered through readers that answer every other call with ErrorKind::Interrupted (to be retried, as the Read contract says)"),
 "C09-m4": ("C09", "./check C09 --tier quick -> exit 1 (Poseidon of (b, a) right after (a, b) returns the first result)", "caught by the history-derived cases added before this change was tried"),
 "C17-m3": ("C17", "./check C17 --tier quick -> exit 1 (full build: writing the default value to a fresh position does not raise the mark)", ""),
 "C17-m4": ("C17", "./check C17 --tier quick -> exit 1 (optimal build: delete exactly at the mark raises it)", ""),
 "C18-m3": ("C18", "./check C18 --tier quick -> exit 1 (threads whose first verification on a fresh instance coincide panic)", "missed at first; every round now uses a fresh instance and all threads leave a barrier with a verification as their first call"),
 "C18-m4": ("C18", "./check C18 --tier quick -> exit 1 (concurrent path queries for different positions return another position's path)", "missed at first; a storm of membership-path queries over 8 positions from 16 threads was added (long outputs recorded as digests)"),
 "C19-m3": ("C19", "./check C19 --tier quick -> exit 1 (shr by 128..253 of operands >= 2^128)", ""),
 "C19-m4": ("C19", "./check C19 --tier quick -> exit 1 (0 ** (p-1) = 1)", "missed at first: Pow was only judged for exponents 0, 1, 2; now every Pow evaluation carries a square-and-multiply certificate that TLC verifies product by product (exponents incl. (p-1)/2, p-2, p-1, 2^64)"),
 "C20-m3": ("C20", "./check C20 --tier quick -> exit 1 (second graph in the same buffer evaluated as the first)", "missed at first; the stored graph is now handed over in one long-lived buffer overwritten in place, each graph followed by a twin with one operator exchanged; (the first attempt ended in a tool error: an error string and a vector were compared in the judge - errors are now encoded in the vectors' sort)"),
 "C20-m4": ("C20", "./check C20 --tier quick -> exit 1 (stored graph with a long input map cannot be read back through 1-byte reads)", "missed at first; graphs with 30-50 named inputs, read back through readers delivering 1, 2 or 13 bytes per call"),
 "C06-m5": ("C06", "./check C06 --tier quick -> exit 1 (pm: range of stored values does not raise the mark)", ""),
 "C06-m6": ("C06", "./check C06 --tier quick -> exit 1 (optimal: stale inner nodes after a partly unchanged batch)", ""),
 "C07-m5": ("C07", "./check C07 --tier quick -> exit 1 (full: stale nodes after an unsorted removal list)", ""),
 "C07-m6": ("C07", "./check C07 --tier quick -> exit 1 (optimal: re-hash early exit)", ""),
 "C08-m5": ("C08", "./check C08 --tier quick -> exit 1 (optimal: unsorted removal list)", ""),
 "C08-m6": ("C08", "./check C08 --tier quick -> exit 1 (full: batch of stored values does not raise the mark)", ""),
 "C15-m5": ("C15", "./check C15 --tier quick -> exit 1 (pm: marks left by a rejected range write)", ""),
 "C15-m6": ("C15", "./check C15 --tier quick -> exit 1 (optimal: removal behind the written range skipped)", ""),
 "C16-m5": ("C16", "./check C16 --tier quick -> exit 1 (all-zero metadata gone after reopen)", "missed at first; metadata values now include all-zero ones"),
 "C16-m6": ("C16", "./check C16 --tier quick -> exit 1 (metadata rejected by a failing write is served until the reopen)", "missed at first; every call kind is hit by a fault and every other history ends without a retry"),
 "C01-m5": ("C01", "./check C01 --tier quick -> exit 1 (member registered inside a 2500-leaf batch: its message is rejected)", "missed at first; history class big-batch (registration inside one batch of 2500 leaves) added"),
 "C01-m6": ("C01", "./check C01 --tier quick -> exit 1 (member refused a proof after a restart / a vacate-and-reassign batch)", ""),
 "C02-m5": ("C02", "./check C02 --tier quick -> exit 1 (root set whose bytes contain the root across a record boundary accepted)", "missed at first; root-set classes straddle1/8/16/31 added"),
 "C02-m6": ("C02", "./check C02 --tier quick -> exit 1 (declared length + 2^32 accepted)", ""),
 "C03-m5": ("C03", "./check C03 --tier quick -> exit 1 (recovery with the first message in its with-signal form returns nothing)", ""),
 "C03-m6": ("C03", "./check C03 --tier quick -> exit 1 (secret 0 is not recovered)", ""),
 "C12-m5": ("C12", "./check C12 --tier quick -> exit 1 (non-member request through the tree entry returns an unverifiable proof)", ""),
 "C12-m6": ("C12", "./check C12 --tier quick -> exit 1 (19-level witness proves 'successfully')", ""),
 "C13-m5": ("C13", "./check C13 --tier quick -> exit 1 (x + p / root + p accepted)", ""),
 "C13-m6": ("C13", "./check C13 --tier quick -> exit 1 (roots buffer with a trailing partial entry panics)", ""),
 "C04-m5": ("C04", "./check C04 --tier quick -> exit 1 (published root is the tree's for a non-member witness)", ""),
 "C04-m6": ("C04", "./check C04 --tier quick -> exit 1 (a zero path element above the leaf level is replaced by the empty-subtree root)", "missed at first; boundary values (all 0 / 1 / p-1, zeros at some levels) among the path elements added"),
 "C09-m5": ("C09", "./check C09 --tier quick -> exit 1 (Poseidon of 4, 5, 6, 8 inputs: round certificate rejected)", ""),
 "C09-m6": ("C09", "./check C09 --tier quick -> exit 1 (byte-level hash through a short-read reader hashes the first piece only)", ""),
 "C10-m5": ("C10", "./check C10 --tier quick -> exit 1 (narrow element after a wide one keeps stale high limbs)", ""),
 "C10-m6": ("C10", "./check C10 --tier quick -> exit 1 (witness with trailing bytes decodes)", ""),
 "C11-m5": ("C11", "./check C11 --tier quick -> exit 1 (FFI leaves the caller's output descriptor untouched when the result is empty)", "missed at first; the output descriptor handed to every FFI call now designates an earlier result instead of being empty"),
 "C11-m6": ("C11", "./check C11 --tier quick -> exit 1 (FFI leaf count / sequential batch position after a deletion)", ""),
 "C05-m3": ("C05", "./check C05 --tier quick -> exit 1 (input with a zero limb below a non-zero one converted wrongly)", ""),
 "C05-m4": ("C05", "./check C05 --tier quick -> exit 1 (input d*2^192 + a truncated to its low limb)", ""),
 "C14-m5": ("C14", "./check C14 --tier quick -> exit 1 (seed longer than 256 bytes / delivered in pieces truncated)", ""),
 "C14-m6": ("C14", "./check C14 --tier quick -> exit 1 (unseeded identity after a seeded call repeats)", ""),
 "C17-m5": ("C17", "./check C17 --tier quick -> exit 1 (default build: writing the stored value does not raise the mark)", ""),
 "C17-m6": ("C17", "./check C17 --tier quick -> exit 1 (full build: a rejected write beyond capacity moves the mark, later appends fail)", "missed at first; rejected writes beyond the capacity added to the histories"),
 "C18-m5": ("C18", "./check C18 --tier quick -> exit 1 (one failing hash call poisons the shared hasher for every thread)", "missed at first; the shared workload now contains a call that fails by itself (nine Poseidon inputs), last in the sequential reference"),
 "C18-m6": ("C18", "./check C18 --tier quick -> exit 1 (re-creation on the same location after a plain drop refused)", ""),
 "C19-m5": ("C19", "./check C19 --tier quick -> exit 1 (comparisons of operands far apart on the signed axis inverted in the Montgomery evaluator)", ""),
 "C19-m6": ("C19", "./check C19 --tier quick -> exit 1 (shr by 128..253)", ""),
 "C20-m5": ("C20", "./check C20 --tier quick -> exit 1 (wide right shifts inside graphs)", ""),
 "C20-m6": ("C20", "./check C20 --tier quick -> exit 1 (stored graph not readable through short-read readers)", ""),
 "C09-m1": ("C09", "./check C09 --tier quick -> exit 1 (Poseidon of 8 inputs: round certificate rejected)", ""),
 "C09-m2": ("C09", "./check C09 --tier quick -> exit 1 (byte-level / FFI hash of a 4097-byte signal differs from Keccak.tla)", "missed at first; hash-to-field lengths 4095, 4096, 4097 (8192, 10000 thorough) added"),
 "C11-m1": ("C11", "./check C11 --tier quick -> exit 1 (metadata after set_tree differs between FFI and API)", "missed at first; life-cycle scenario and set_tree inside random histories added"),
 "C11-m2": ("C11", "./check C11 --tier quick -> exit 1 (FFI reports success where the API reports an error on a full tree)", ""),
 "C17-m1": ("C17", "./check C17 --tier quick -> exit 1 (optimal build: root differs after appending the default value)", "missed at first; histories now append default values and delete at/above the mark; judge compares roots only (result flags of no-op deletions legitimately differ)"),
 "C17-m2": ("C17", "./check C17 --tier quick -> exit 1 (full build: root differs after delete at the mark + append)", "as C17-m1"),
 "C18-m1": ("C18", "./check C18 --tier quick -> exit 1 (pool-size transcripts differ)", "equal-leaf batches added to the pool workload"),
 "C18-m2": ("C18", "./check C18 --tier quick -> exit 1 (hand-over re-creation fails at once with 'could not acquire lock')", "missed at first; hand-over cycles added"),
 "C20-m2": ("C20", "./check C20 --tier quick -> exit 1 (stored constants 128..255 come back negative)", ""),
}
conf = {}
for f in sorted(glob.glob("/tmp/confirm*.log")) + ["/verif/seeded/confirmations.txt"]:
    if not os.path.exists(f):
        continue
    for l in open(f):
        m = re.match(r"CONFIRM \S*/(C\d+)[-/](?:out/)?(m\d)\s+(.*)", l.strip().replace("seeded/", "seeded/").replace("/tmp/wt-", "/x/"))
        if m:
            conf[f"{m.group(1)}-{m.group(2)}"] = m.group(3)
for d in sorted(glob.glob("/verif/seeded/C*-m*")):
    name = os.path.basename(d)
    if name not in DET:
        continue
    mp = os.path.join(d, "meta.json")
    ap = os.path.join(d, "meta_agent.json")
    base = json.load(open(ap)) if os.path.exists(ap) else (json.load(open(mp)) if os.path.exists(mp) else {})
    prop, det, hist = DET[name]
    meta = {"property": prop, "summary": base.get("summary"), "needs": base.get("needs"), "demo_cmd": base.get("demo_cmd"),
            "author": "independent sub-agent given only the property text and a scratch worktree",
            "confirmed_by_me": (conf.get(name, "see confirm.log") + " (tools/confirm_mutant.sh in a scratch worktree at the current HEAD: demo passes without "
                                "the change, fails with it; the repository's suite passes with it - 'suite_rc=100 suite_fails=0' means only the known flaky "
                                "performance test timed out under load)"),
            "patch": "patch_ported.diff" if os.path.exists(os.path.join(d, "patch_ported.diff")) else "patch.diff",
            "detected_by": det}
    if hist:
        meta["history"] = hist
    json.dump(meta, open(mp, "w"), indent=1)
    print(name, conf.get(name, "-"))
