#!/usr/bin/env python3
"""regress.py [--slots N] [--out FILE] [--only ID[,ID..]] [--tier quick]
Regression of the stored seeded changes against the current checks.

Each slot owns a scratch git worktree of /repo (outside /repo and /verif), its own work and evidence directories
(VERIF_REPO / VERIF_WORK / VERIF_EVID), so nothing touches /repo's working tree or /verif/evidence. For every
seeded/<id>: reset the worktree, apply patch_ported.diff (if present) or patch.diff, run the quick check of the
property the change breaks, record exit code and VIOLATION count; the worktree is removed at the end.
A line per change:  <id> prop=<P> exit=<rc> violations=<n> wall=<s>  [DETECTED|MISSED|TOOL-ERROR|PATCH-FAIL]
After all changes, each slot runs one property on the *unpatched* worktree as a control (must exit 0)."""
import json
import os
import queue
import subprocess
import sys
import threading
import time

VERIF = os.path.dirname(os.path.dirname(os.path.abspath(__file__)))
REPO = os.environ.get("REGRESS_REPO", "/repo")
BASE = os.environ.get("REGRESS_SCRATCH", "/tmp/zk-regress")


def sh(cmd, **kw):
    return subprocess.run(cmd, stdout=subprocess.PIPE, stderr=subprocess.STDOUT, text=True, **kw)


def main():
    args = sys.argv[1:]
    slots = int(args[args.index("--slots") + 1]) if "--slots" in args else 3
    outp = args[args.index("--out") + 1] if "--out" in args else os.path.join(VERIF, "seeded", "regression.txt")
    only = args[args.index("--only") + 1].split(",") if "--only" in args else None
    tier = args[args.index("--tier") + 1] if "--tier" in args else "quick"
    ids = sorted(d for d in os.listdir(os.path.join(VERIF, "seeded")) if os.path.isdir(os.path.join(VERIF, "seeded", d)))
    if only:
        ids = [i for i in ids if i in only]
    # long checks first (tree group, storage) so that the slots finish together
    weight = {"C06": 9, "C07": 9, "C08": 9, "C15": 9, "C16": 6, "C09": 5, "C01": 4}
    jobs = []
    for i in ids:
        d = os.path.join(VERIF, "seeded", i)
        try:
            meta = json.load(open(os.path.join(d, "meta.json")))
        except Exception:
            meta = {}
        prop = meta.get("check_property") or meta.get("property") or i.split("-")[0]
        det = meta.get("detected_by", "")
        # the table in DESIGN names the check that reports the change; when it is another property's check, use that
        import re
        m = re.search(r"\./check (C\d\d)", det)
        if m:
            prop = m.group(1)
        patch = os.path.join(d, "patch_ported.diff")
        if not os.path.exists(patch):
            patch = os.path.join(d, "patch.diff")
        jobs.append((i, prop, patch))
    jobs.sort(key=lambda j: -weight.get(j[1], 1))
    q = queue.Queue()
    for j in jobs:
        q.put(j)
    os.makedirs(BASE, exist_ok=True)
    lock = threading.Lock()
    results = {}
    head = sh(["git", "-C", REPO, "rev-parse", "--short", "HEAD"]).stdout.strip()
    vhead = sh(["git", "-C", VERIF, "rev-parse", "--short", "HEAD"]).stdout.strip()

    def flush():
        with open(outp, "w") as f:
            f.write(f"# regression of the stored seeded changes; /repo {head}, /verif {vhead}, tier {tier}, {time.strftime('%Y-%m-%d %H:%M')}\n")
            for k in sorted(results):
                f.write(results[k] + "\n")
            det = sum(1 for v in results.values() if v.endswith("DETECTED"))
            n = sum(1 for k in results if not k.startswith("~"))
            f.write(f"# {det} of {n} reported (of {len(jobs)} stored)\n")

    def worker(n):
        wt = os.path.join(BASE, f"wt{n}")
        sh(["git", "-C", REPO, "worktree", "remove", "--force", wt])
        r = sh(["git", "-C", REPO, "worktree", "add", "--detach", wt, "HEAD"])
        if r.returncode != 0:
            print("worktree add failed", r.stdout)
            return
        env = dict(os.environ, VERIF_REPO=wt, VERIF_WORK=os.path.join(BASE, f"work{n}"), VERIF_EVID=os.path.join(BASE, f"evid{n}"))
        control = None
        try:
            while True:
                try:
                    i, prop, patch = q.get_nowait()
                except queue.Empty:
                    break
                sh(["git", "-C", wt, "checkout", "-q", "--", "."])
                sh(["git", "-C", wt, "clean", "-fdq", "--", "rln", "utils", "rln-cli", "rln-wasm"])
                a = sh(["git", "-C", wt, "apply", patch])
                t0 = time.time()
                if a.returncode != 0:
                    line = f"{i} prop={prop} exit=- violations=- wall=0 PATCH-FAIL"
                else:
                    r = sh([os.path.join(VERIF, "check"), prop, "--tier", tier], env=env, cwd=VERIF)
                    nv = sum(1 for l in r.stdout.splitlines() if l.startswith("VIOLATION"))
                    verdict = "DETECTED" if (r.returncode == 1 and nv > 0) else ("MISSED" if r.returncode == 0 else "TOOL-ERROR")
                    line = f"{i} prop={prop} exit={r.returncode} violations={nv} wall={int(time.time() - t0)} {verdict}"
                    if verdict != "DETECTED":
                        with open(os.path.join(BASE, f"log-{i}.txt"), "w") as f:
                            f.write(r.stdout[-20000:])
                    control = prop
                print(line, flush=True)
                with lock:
                    results[i] = line
                    flush()
            # control: the last property of this slot on the unpatched tree must be quiet
            if control:
                sh(["git", "-C", wt, "checkout", "-q", "--", "."])
                t0 = time.time()
                r = sh([os.path.join(VERIF, "check"), control, "--tier", tier], env=env, cwd=VERIF)
                line = f"~control-slot{n} prop={control} exit={r.returncode} wall={int(time.time() - t0)} {'QUIET' if r.returncode == 0 else 'ALARM-ON-UNCHANGED-TREE'}"
                print(line, flush=True)
                with lock:
                    results[f"~control-slot{n}"] = line
                    flush()
        finally:
            sh(["git", "-C", REPO, "worktree", "remove", "--force", wt])
            sh(["rm", "-rf", os.path.join(BASE, f"work{n}"), os.path.join(BASE, f"evid{n}")])

    ts = [threading.Thread(target=worker, args=(n,)) for n in range(slots)]
    for t in ts:
        t.start()
    for t in ts:
        t.join()
    flush()
    missed = [k for k, v in results.items() if not (v.endswith("DETECTED") or v.endswith("QUIET"))]
    print("not reported / errors:", missed)
    return 0


if __name__ == "__main__":
    sys.exit(main())
