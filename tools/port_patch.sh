#!/bin/bash
# port_patch.sh <seeded-dir>... : if patch.diff (written against the tree before hook H2) does not apply to /repo HEAD,
# merge it file by file (git merge-file --union: base = the tree before H2, ours = HEAD, theirs = base + patch; where both
# inserted at the same place the hook prelude comes first, so the seeded lines are inside the traced call) and store
# the result as patch_ported.diff
BASE=${PORT_BASE:-760cda6^}
wt=/tmp/zk-port; wb=/tmp/zk-port-base
git -C /repo worktree remove --force $wt 2>/dev/null; git -C /repo worktree remove --force $wb 2>/dev/null
git -C /repo worktree add --detach $wt HEAD -q || exit 2
git -C /repo worktree add --detach $wb $BASE -q || exit 2
for d in "$@"; do
  d=$(readlink -f $d)
  git -C $wt checkout -q -- .; git -C $wb checkout -q -- .
  if git -C $wt apply --check $d/patch.diff 2>/dev/null; then echo "$d applies"; rm -f $d/patch_ported.diff; continue; fi
  git -C $wb apply $d/patch.diff || { echo "$d DOES NOT APPLY TO ITS BASE"; continue; }
  ok=1
  for f in $(git -C $wb diff --name-only); do
    git -C $wb show HEAD:$f > /tmp/zk-port-orig
    git merge-file --union -p $wt/$f /tmp/zk-port-orig $wb/$f > /tmp/zk-port-merged || ok=0
    cp /tmp/zk-port-merged $wt/$f
  done
  git -C $wt diff > $d/patch_ported.diff
  echo "$d ported (union merge, clean=$ok)"
done
git -C /repo worktree remove --force $wt; git -C /repo worktree remove --force $wb
