#!/usr/bin/env python3
"""port_patch.py <seeded-dir>... : make a seeded patch applicable to /repo HEAD after hook commits moved its context.
Finds the newest earlier commit the patch applies to (its base), applies it there, and merges every changed file
three-way into HEAD (git merge-file --diff3). Where both sides only INSERTED at the same place (a hook prelude and
the seeded lines right after a function signature) the hook lines come first and the seeded lines follow, i.e. the
seeded code is inside the traced call; any other conflict is left for manual porting. Writes patch_ported.diff."""
import os, re, subprocess, sys
REPO = "/repo"
def sh(*a, **k):
    return subprocess.run(a, stdout=subprocess.PIPE, stderr=subprocess.STDOUT, text=True, **k)
head = sh("git", "-C", REPO, "rev-parse", "HEAD").stdout.strip()
bases = sh("git", "-C", REPO, "log", "--format=%H", "-n", "12").stdout.split()
wt, wb = "/tmp/zk-port", "/tmp/zk-port-base"
for w in (wt, wb):
    sh("git", "-C", REPO, "worktree", "remove", "--force", w)
sh("git", "-C", REPO, "worktree", "add", "--detach", wt, head)
sh("git", "-C", REPO, "worktree", "add", "--detach", wb, head)
for d in sys.argv[1:]:
    d = os.path.abspath(d)
    src = os.path.join(d, "patch.diff")
    # patches written against the tree before the round-1 fixes have their own ported version: start from that
    for cand in ("patch_ported.diff",):
        pass
    sh("git", "-C", wt, "checkout", "-q", "--", ".")
    if sh("git", "-C", wt, "apply", "--check", src).returncode == 0:
        print(d, "applies to HEAD"); continue
    pp = os.path.join(d, "patch_ported.diff")
    srcs = [pp, src] if os.path.exists(pp) else [src]
    done = False
    for s in srcs:
        if sh("git", "-C", wt, "apply", "--check", s).returncode == 0:
            print(d, os.path.basename(s), "applies to HEAD"); done = True; break
        for b in bases[1:]:
            sh("git", "-C", wb, "checkout", "-q", "--detach", b); sh("git", "-C", wb, "checkout", "-q", "--", ".")
            if sh("git", "-C", wb, "apply", s).returncode != 0:
                continue
            files = sh("git", "-C", wb, "diff", "--name-only").stdout.split()
            ok = True
            for f in files:
                orig = sh("git", "-C", wb, "show", f"HEAD:{f}").stdout
                open("/tmp/zk-port-orig", "w").write(orig)
                m = sh("git", "merge-file", "-p", "--diff3", os.path.join(wt, f), "/tmp/zk-port-orig", os.path.join(wb, f)).stdout
                out, i, lines = [], 0, m.split("\n")
                while i < len(lines):
                    if lines[i].startswith("<<<<<<< "):
                        j = i + 1; ours = []; base = []; theirs = []
                        while not lines[j].startswith("||||||| "): ours.append(lines[j]); j += 1
                        j += 1
                        while not lines[j].startswith("======="): base.append(lines[j]); j += 1
                        j += 1
                        while not lines[j].startswith(">>>>>>> "): theirs.append(lines[j]); j += 1
                        if not base:
                            out += ours + theirs                      # both only inserted: hook prelude first
                        elif ours[-len(base):] == base:
                            out += ours[:-len(base)] + theirs         # hook inserted BEFORE lines the seeded change rewrote
                        elif ours[:len(base)] == base:
                            out += theirs + ours[len(base):]
                        else:
                            ok = False
                            out += ours + theirs
                        i = j + 1
                    else:
                        out.append(lines[i]); i += 1
                open(os.path.join(wt, f), "w").write("\n".join(out))
            diff = sh("git", "-C", wt, "diff").stdout
            if ok:
                open(pp, "w").write(diff)
                print(d, "ported from", b[:7], "(" + os.path.basename(s) + ")")
            else:
                open(pp + ".conflict", "w").write(diff)
                print(d, "NEEDS MANUAL PORT (base", b[:7] + ")")
            done = True
            break
        if done:
            break
    if not done:
        print(d, "no base found")
for w in (wt, wb):
    sh("git", "-C", REPO, "worktree", "remove", "--force", w)
