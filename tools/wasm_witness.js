// Runs the reference circom witness generator (rln.wasm) under node's WebAssembly for the input assignments in
// <cases.ndjson> and writes one line per case: {"id":..,"res":"ok","witness":[decimal strings]} or {"res":"rejected"}.
// usage: node wasm_witness.js <rln.wasm> <cases.ndjson> <out.ndjson>
const fs = require('fs');
function fnvHash(str) {
  const m = 2n ** 64n;
  let h = 0xCBF29CE484222325n;
  for (let i = 0; i < str.length; i++) { h ^= BigInt(str.charCodeAt(i)); h = (h * 0x100000001B3n) % m; }
  return h.toString(16).padStart(16, '0');
}
function toArray32(v, n32) {            // big-endian array of 32-bit words
  const a = new Array(n32).fill(0);
  let i = n32 - 1;
  while (v > 0n && i >= 0) { a[i] = Number(v & 0xFFFFFFFFn); v >>= 32n; i--; }
  return a;
}
function fromArray32(a) { let v = 0n; for (const w of a) v = (v << 32n) | BigInt(w >>> 0); return v; }
async function main() {
  const [wasmPath, casesPath, outPath] = process.argv.slice(2);
  const mod = await WebAssembly.compile(fs.readFileSync(wasmPath));
  const lines = fs.readFileSync(casesPath, 'utf8').split('\n').filter(l => l.trim());
  const out = [];
  for (const line of lines) {
    const c = JSON.parse(line);
    let errCode = null;
    const inst = await WebAssembly.instantiate(mod, { runtime: {
      exceptionHandler: (code) => { errCode = code; throw new Error('exception ' + code); },
      printErrorMessage: () => {}, writeBufferMessage: () => {}, showSharedRWMemory: () => {} } });
    const ex = inst.exports;
    const n32 = ex.getFieldNumLen32();
    try {
      ex.init(1);
      let count = 0;
      for (const name of c.order) {
        const h = fnvHash(name);
        const hMSB = parseInt(h.slice(0, 8), 16), hLSB = parseInt(h.slice(8, 16), 16);
        const vals = c.inputs[name];
        for (let i = 0; i < vals.length; i++) {
          const arr = toArray32(BigInt(vals[i]), n32);
          for (let j = 0; j < n32; j++) ex.writeSharedRWMemory(j, arr[n32 - 1 - j]);
          ex.setInputSignal(hMSB, hLSB, i);
          count++;
        }
      }
      if (count < ex.getInputSize()) throw new Error('not all inputs set');
      const n = ex.getWitnessSize();
      const w = [];
      for (let i = 0; i < n; i++) {
        ex.getWitness(i);
        const arr = new Array(n32);
        for (let j = 0; j < n32; j++) arr[n32 - 1 - j] = ex.readSharedRWMemory(j);
        w.push(fromArray32(arr).toString());
      }
      out.push(JSON.stringify({ id: c.id, res: 'ok', witness: w }));
    } catch (e) {
      out.push(JSON.stringify({ id: c.id, res: 'rejected', msg: String(e.message).slice(0, 100), code: errCode }));
    }
  }
  fs.writeFileSync(outPath, out.join('\n') + '\n');
}
main().catch(e => { console.error(e); process.exit(2); });
