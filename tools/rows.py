#!/usr/bin/env python3
"""rows.py <regression file> <suffixes e.g. m7,m8> : table rows for DESIGN.md section 8 from seeded/*/meta.json and a regression report"""
import json, os, re, sys
reg = {}
for l in open(sys.argv[1]):
    m = re.match(r"(C\d\d-m\d+) prop=(C\d\d) exit=(\S+) violations=(\d+) wall=(\d+) (\S+)", l)
    if m:
        reg.setdefault(m.group(1), []).append((m.group(2), m.group(6), int(m.group(4))))
suf = sys.argv[2].split(",")
notes = json.load(open(sys.argv[3])) if len(sys.argv) > 3 else {}
for d in sorted(os.listdir("/verif/seeded")):
    if not any(d.endswith("-" + s) for s in suf):
        continue
    meta = json.load(open(f"/verif/seeded/{d}/meta.json"))
    s = " ".join((meta.get("summary") or "").split())
    s = re.sub(r"\|", "/", s)
    short = s if len(s) < 230 else s[:227].rsplit(" ", 1)[0] + " ..."
    rs = reg.get(d, [])
    by = ", ".join(p for p, v, _ in rs if v == "DETECTED") or "-"
    missed = [p for p, v, _ in rs if v != "DETECTED"]
    note = notes.get(d, "")
    if missed and not note:
        note = "**" + ", ".join(f"{p}: {v}" for p, v, _ in rs if v != "DETECTED") + "**"
    print(f"| {d} {short} | {by} | {note} |")
