#!/usr/bin/env python3
"""prints the prompt for a mutation sub-agent: property text + worktree path only"""
import json, sys
pid, wt = sys.argv[1], sys.argv[2]
n = sys.argv[3] if len(sys.argv) > 3 else "2"
for l in open('/verif/properties.jsonl'):
    p = json.loads(l)
    if p['id'] == pid:
        break
print(f"""You are helping to evaluate a verification framework by producing realistic faulty variants of a Rust code base (mutation testing by hand). Work ONLY inside the git worktree {wt} (a scratch checkout of the repository vacp2p/zerokit: Rust zero-knowledge toolkit implementing Rate-Limiting Nullifier (RLN) proofs, Poseidon hashing, Merkle tree variants, a circom witness-graph evaluator and a C FFI). Do not read or touch /verif or /repo, and do not look at any other directory under /tmp. There is no network; use `cargo ... --offline` only. Set CARGO_TARGET_DIR={wt}/target for everything you build.

The property under study ({p['id']}: {p['title']}):
  STATEMENT: {p['statement']}
  QUANTIFIED OVER: {p['quantifier']['text']}
  Relevant source files: {', '.join(p['anchors']['files'])}

Your task: produce {n} DIFFERENT, independent source changes (each a small patch to the library's non-test source code under rln/src or utils/src; never edit tests, benches, resources or Cargo files) such that each change:
  1. BREAKS the property above (the library then really misbehaves in the way the property forbids, for some input/history/configuration);
  2. still compiles, and the repository's existing test suite still passes: run `cd {wt} && cargo test --workspace --no-fail-fast --offline 2>&1 | tail -60` (takes several minutes; one test named test_groth16_proofs_performance_ffi is known to be flaky/slow and may be ignored). If a change makes an existing test fail, it is not acceptable: refine it;
  3. is SUBTLE: it must need something specific to manifest - a particular multi-step sequence of operations, an unusual input or boundary value, a particular configuration/backend, a fault or interleaving, or two cooperating code sites that each look fine alone. Changes that ordinary use would expose at once (e.g. every call returns a wrong value) are not wanted. Think of the kind of bug a tired maintainer could really introduce in a refactoring or optimisation.
  4. comes with a DEMONSTRATION: a small Rust integration test file (put it at {wt}/<crate>/tests/demo_<name>.rs where <crate> is rln or utils) that FAILS with the change applied and PASSES on the unchanged code. Verify both directions yourself (git stash or git apply -R to test without the change).

Deliver, for change number k = 1..{n}, a directory {wt}/out/m<k>/ containing:
  - patch.diff   : `git diff` of the library change ONLY (not the demo test), applicable with `git apply` at the worktree root;
  - demo.rs      : the demonstration test file, plus a line at its top as a comment saying where it must be placed (e.g. // place at rln/tests/demo_x.rs) and the command to run it;
  - meta.json    : {{"property": "{p['id']}", "summary": "...what the change does...", "needs": "...what is needed for the misbehaviour to manifest...", "demo_cmd": "...", "verified": "what you ran and what you observed (suite result with the change, demo result with and without)"}}
When finished, restore the worktree's tracked files to the unchanged state (`git checkout -- .`; leaving the out/ directory and untracked demo files is fine) and reply with a short summary of the {n} changes. Do not commit anything.""")
