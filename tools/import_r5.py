#!/usr/bin/env python3
"""import_r5.py P [P..]: copy the round-5 deliveries /tmp/r5-P/out/m{1,2} to seeded/P-m{7,8} (patch, demo, agent meta, my confirmation)"""
import json, os, shutil, sys, re
conf = ""
import glob
for f in glob.glob("/tmp/r5-*.confirm"):
    if os.path.exists(f):
        conf += open(f).read()
for p in sys.argv[1:]:
    for k, n in ((1, 9), (2, 10)):
        src = f"/tmp/r5-{p}/out/m{k}"
        if not os.path.isdir(src):
            continue
        line = next((l for l in conf.splitlines() if l.startswith(f"CONFIRM {src} ")), None)
        if line is None:
            print("not confirmed yet:", src); continue
        dst = f"/verif/seeded/{p}-m{n}"
        os.makedirs(dst, exist_ok=True)
        for f in ("patch.diff", "demo.rs", "confirm.log"):
            if os.path.exists(os.path.join(src, f)):
                shutil.copy(os.path.join(src, f), os.path.join(dst, f))
        am = json.load(open(os.path.join(src, "meta.json")))
        json.dump(am, open(os.path.join(dst, "meta_agent.json"), "w"), indent=1)
        ok = ("demo_without=0" in line) and ("demo_with=101" in line or "demo_with=1 " in line) and ("suite_fails=0" in line)
        meta = {"property": p, "round": 5, "summary": am.get("summary"), "needs": am.get("needs"), "demo_cmd": am.get("demo_cmd"),
                "author": "independent sub-agent given only the property text and a scratch worktree",
                "confirmed_by_me": line + " (tools/confirm_mutant.sh: demo passes without the change, fails with it; cargo nextest suite passes with it)",
                "valid": ok}
        old = os.path.join(dst, "meta.json")
        if os.path.exists(old):
            o = json.load(open(old))
            for kk in ("detected_by", "history"):
                if kk in o: meta[kk] = o[kk]
        json.dump(meta, open(old, "w"), indent=1)
        print(dst, "valid" if ok else "NOT VALID", line.split(" ", 2)[2])
