#!/bin/bash
# confirm_mutant.sh <worktree> <mdir>  : confirm (1) demo passes without the change, (2) fails with it,
# env DEMOFLAGS (e.g. --no-default-features) / DEMOARGS (e.g. "-- --test-threads=1") are passed to the demo run.
# (3) the repository's suite passes with it. Writes <mdir>/confirm.log and prints a one-line verdict.
wt=$1; m=$2
cd $wt || exit 2
export CARGO_TARGET_DIR=$wt/target CARGO_NET_OFFLINE=true
git checkout -q -- . 
place=$(head -5 $m/demo.rs | grep -o -E "(rln|utils)/tests/[A-Za-z0-9_]+\.rs" | head -1)
[ -z "$place" ] && { echo "NO-PLACE $m"; exit 2; }
cp $m/demo.rs $wt/$place
crate=$(echo $place | cut -d/ -f1); [ "$crate" = utils ] && pkg=zerokit_utils || pkg=rln
tname=$(basename $place .rs)
log=$m/confirm.log; : > $log
echo "== demo without change" >> $log
cargo test -p $pkg $DEMOFLAGS --test $tname --offline $DEMOARGS >> $log 2>&1; r0=$?
git apply $m/${PATCHFILE:-patch.diff} || { echo "PATCH-FAIL $m"; exit 2; }
echo "== demo with change" >> $log
cargo test -p $pkg $DEMOFLAGS --test $tname --offline $DEMOARGS >> $log 2>&1; r1=$?
rm -f $wt/$place
echo "== suite with change" >> $log
cargo nextest run --workspace --no-fail-fast --tool-config-file pb:/w/lib/nextest.toml --profile pb --test-threads 8 --offline >> $log 2>&1; r2=$?
fails=$(grep -E "^\s+FAIL " $log | grep -v performance | sort -u | wc -l)
git checkout -q -- .
echo "CONFIRM $m demo_without=$r0 demo_with=$r1 suite_rc=$r2 suite_fails=$fails"
