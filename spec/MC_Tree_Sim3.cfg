SPECIFICATION Spec
CONSTANTS
  Depth = 3
  Vals = {0, 1, 2}
  MaxBatch = 3
  MaxRem = 2
  Ops = {"set", "delete", "append", "range", "override", "init"}
  Emit = FALSE
  HistLen = 30
INVARIANTS TypeOK
CHECK_DEADLOCK FALSE
