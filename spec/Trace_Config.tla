---------------------------- MODULE Trace_Config ----------------------------
(***************************************************************************)
(* Judge for C17: one merged trace of all build configurations (Conf.tla's *)
(* replicas).  For the same history step every configuration must report   *)
(* the same root and the same membership path bytes; key digests must be   *)
(* equal; the snarkjs and arkworks key files must parse to equal keys and  *)
(* matrices; every message must be accepted by every other configuration   *)
(* (stateful and with the producer's root), and by the stateless verifier  *)
(* only with the right root.  A configuration that does not build is a     *)
(* violation, not a tool error.                                            *)
(***************************************************************************)
EXTENDS Integers, Sequences, TLC, Json, IOUtils, FiniteSets

Rec == ndJsonDeserialize(IOEnv.TRACE)
VARIABLES l, roots, paths, digest
vars == <<l, roots, paths, digest>>
More == l <= Len(Rec)
NoVal == <<>>
Get(f, k) == IF k \in DOMAIN f THEN f[k] ELSE NoVal
Put(f, k, v) == [x \in DOMAIN f \cup {k} |-> IF x = k THEN v ELSE f[x]]

LineOK(e) ==
  CASE e.t = "build" -> e.res = "ok"
    [] e.t = "step" -> /\ e.root \notin {<<-1>>, <<-2>>}                                           \* (error / crash markers of the recorder)
                       /\ Get(roots, <<e.hist, e.k>>) \in {NoVal, <<e.root>>}     \* same root as every other build (whether a no-op deletion
                                                                                  \* beyond the leaf count is reported as Ok or Err legitimately differs)
    [] e.t = "path" -> /\ e.bytes \notin {<<-1>>, <<-2>>}
                       /\ Get(paths, <<e.hist, e.k>>) \in {NoVal, <<e.bytes, e.leaf>>}
    [] e.t = "key" -> digest = <<>> \/ digest = <<e.digest>>          \* every build loads the same key and matrices
    [] e.t = "keyfiles" -> e.eq.res = "ok" /\ e.eq.pk /\ e.eq.vk /\ e.eq.a /\ e.eq.b /\ e.eq.c /\ e.eq.dims
    [] e.t = "prove" -> e.res
    [] e.t = "xverify" -> /\ e.roots /\ e.stateful
                          /\ ("wrongroot" \in DOMAIN e => ~e.wrongroot)
    [] OTHER -> TRUE

Advance(e) ==
  /\ l' = l + 1
  /\ roots' = (IF e.t = "step" /\ Get(roots, <<e.hist, e.k>>) = NoVal THEN Put(roots, <<e.hist, e.k>>, <<e.root>>) ELSE roots)
  /\ paths' = (IF e.t = "path" /\ Get(paths, <<e.hist, e.k>>) = NoVal THEN Put(paths, <<e.hist, e.k>>, <<e.bytes, e.leaf>>) ELSE paths)
  /\ digest' = (IF e.t = "key" /\ digest = <<>> THEN <<e.digest>> ELSE digest)
Init == l = 1 /\ roots = << >> /\ paths = << >> /\ digest = <<>>
Good == More /\ LineOK(Rec[l]) /\ Advance(Rec[l])
Deviation == More /\ ~LineOK(Rec[l]) /\ PrintT(<<"DEV", l>>) /\ PrintT(<<"WHY", l, Rec[l].t, Rec[l].cfg>>) /\ Advance(Rec[l])
Next == Good \/ Deviation
Spec == Init /\ [][Next]_vars
Accepted == (TLCGet("stats").diameter - 1 = Len(Rec)) \/ (PrintT(<<"REJECT", TLCGet("stats").diameter>>) /\ FALSE)
=============================================================================
