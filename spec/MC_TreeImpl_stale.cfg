SPECIFICATION Spec
CONSTANTS
  Depth = 2
  Vals = {0, 1}
  MaxBatch = 2
  MaxRem = 1
  Variant = "stale-right-half"
INVARIANTS Consistent MarkOK ResultOK
CHECK_DEADLOCK FALSE
