----------------------------- MODULE Trace_Ops -----------------------------
(***************************************************************************)
(* Judge for C19: every recorded evaluation of a witness-graph operator    *)
(* (Montgomery evaluator eval_fr and integer evaluator eval) must satisfy  *)
(* CircomOps!Holds for the BN254 scalar field: the result is canonical and *)
(* equals circom's semantics (relationally, with the recorder's quotient   *)
(* as untrusted advice, for Mul / Div / Idiv / Mod); both evaluators agree *)
(* where both are defined; a crash is never accepted for an operator the   *)
(* evaluator accepts (Pow, Id: integer evaluator only).                    *)
(***************************************************************************)
EXTENDS Json, IOUtils
PBN == <<1, 0, 0, 240, 147, 245, 225, 67, 145, 112, 185, 121, 72, 232, 51, 40, 93, 88, 129, 129, 182, 69,
         80, 184, 41, 160, 49, 225, 114, 78, 100, 48>>
INSTANCE CircomOps WITH P <- PBN

Rec == ndJsonDeserialize(IOEnv.TRACE)
VARIABLES l
More == l <= Len(Rec)

\* Pow: the recorded square-and-multiply chain is verified product by product (the chain is untrusted advice):
\* acc_0 = 1; for the bits of b from the top: s_k = acc^2, out_k = s_k * a if the bit is set, else s_k; c = out_n.
PowOK(a, b, c, cert) ==
  LET n == Len(cert)
      Prev(k) == IF k = 1 THEN One ELSE cert[k - 1].out
  IN /\ Lt(c, PBN)
     /\ n = BitLen(b)
     /\ \A k \in 1..n :
          /\ Lt(cert[k].s, PBN) /\ Lt(cert[k].out, PBN)
          /\ Rel("Mul", Prev(k), Prev(k), cert[k].s, cert[k].sq)
          /\ IF BitAt(b, n - k) = 1 THEN Rel("Mul", cert[k].s, a, cert[k].out, cert[k].mq) ELSE Eq(cert[k].out, cert[k].s)
     /\ Eq(c, IF n = 0 THEN One ELSE cert[n].out)
OneOK(e, r) ==
  /\ r.res = "ok"
  /\ IF e.op = "Pow" THEN PowOK(e.a, e.b, r.c, e.cert) ELSE Holds(e.op, e.a, e.b, r.c, r.q)

LineOK(e) ==
  CASE e.t = "op" ->
         /\ e.int.res = "ok"
         /\ IF "mont" \in DOMAIN e
            THEN OneOK(e, e.mont) /\ e.int.c = e.mont.c               \* the two evaluators agree (bytes are normalised by the recorder)
            ELSE OneOK(e, e.int)
    [] e.t = "uno" ->
         /\ ("mont" \in DOMAIN e => e.mont.res = "ok" /\ Eq(e.mont.c, Neg(e.a)))
         /\ e.int.res = "ok" /\ Eq(e.int.c, IF e.op = "Neg" THEN Neg(e.a) ELSE e.a) /\ Lt(e.int.c, PBN)
    [] e.t = "tres" ->
         /\ e.mont.res = "ok" /\ Eq(e.mont.c, Tern(e.a, e.b, e.c))
         /\ e.int.res = "ok" /\ Eq(e.int.c, Tern(e.a, e.b, e.c))
    [] OTHER -> TRUE

Init == l = 1
Good == More /\ LineOK(Rec[l]) /\ l' = l + 1
Deviation == More /\ ~LineOK(Rec[l]) /\ PrintT(<<"DEV", l>>) /\ PrintT(<<"WHY", l, Rec[l].op, Rec[l].a, Rec[l].b, Rec[l].int>>) /\ l' = l + 1
Next == Good \/ Deviation
Spec == Init /\ [][Next]_l
Accepted == (TLCGet("stats").diameter - 1 = Len(Rec)) \/ (PrintT(<<"REJECT", TLCGet("stats").diameter>>) /\ FALSE)
=============================================================================
