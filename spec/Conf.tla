-------------------------------- MODULE Conf --------------------------------
(***************************************************************************)
(* Build configurations as replicas: each configuration c keeps its own    *)
(* tree (same ideal semantics, TreeOps) and consumes the same history;     *)
(* messages are produced in one configuration and verified in every other. *)
(* A message is a token bound to the producer's root (Rln.tla's            *)
(* abstraction); the stateless configuration has no tree and is given the  *)
(* producer's root.  TLC checks that roots and membership paths agree in   *)
(* every reachable state and that every message is accepted everywhere.    *)
(***************************************************************************)
EXTENDS TreeOps

CONSTANTS Configs, Depth, Vals, MaxMsgs
Cap == Pow2(Depth)
VARIABLES tr,      \* configuration -> tree state (the stateless one keeps Empty and never uses it)
          msgs     \* produced messages: [by, root, idx]
vars == <<tr, msgs>>
Stateful == Configs \ {"stateless"}

Step(f(_)) == tr' = [c \in Configs |-> IF c \in Stateful THEN f(tr[c]) ELSE tr[c]] /\ UNCHANGED msgs
Set == \E i \in 0..(Cap - 1), v \in Vals : Step(LAMBDA s : SetF(Depth, s, i, v).st)
Delete == \E i \in 0..(Cap - 1) : Step(LAMBDA s : IF i < s.next THEN DelF(Depth, s, i).st ELSE s)
AppendLeaf == \E v \in Vals : Step(LAMBDA s : IF s.next < Cap THEN AppF(Depth, s, v).st ELSE s)
Prove == \E c \in Stateful, i \in 0..(Cap - 1) :
           /\ Cardinality(msgs) < MaxMsgs /\ Lf(tr[c], i) # Z
           /\ msgs' = msgs \cup {[by |-> c, root |-> Root(Depth, tr[c]), idx |-> i]}
           /\ UNCHANGED tr
Init == tr = [c \in Configs |-> Empty] /\ msgs = {}
Next == Set \/ Delete \/ AppendLeaf \/ Prove
Spec == Init /\ [][Next]_vars

AcceptStateful(c, m) == m.root = Root(Depth, tr[c])
AcceptRoots(m, rs) == rs = {} \/ m.root \in rs

SameRoots == \A c1, c2 \in Stateful : Root(Depth, tr[c1]) = Root(Depth, tr[c2])
SamePaths == \A c1, c2 \in Stateful, i \in 0..(Cap - 1) : Proof(Depth, tr[c1], i) = Proof(Depth, tr[c2], i)
\* a message produced under any configuration for the CURRENT tree is accepted under every other one,
\* and by the stateless verifier given the producer's root
CrossAccept == \A m \in msgs : m.root = Root(Depth, tr[m.by]) =>
                  /\ \A c \in Stateful : AcceptStateful(c, m)
                  /\ AcceptRoots(m, {m.root})
=============================================================================
