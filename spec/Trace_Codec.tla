---------------------------- MODULE Trace_Codec ----------------------------
(***************************************************************************)
(* Judge for C10: every recorded serialiser output must equal the layout   *)
(* of Codec.tla applied to the abstract value (field elements as 16-bit    *)
(* limbs of the big-integer representation, independent of the code's      *)
(* BigUint path), every decoder must return the value, and witness         *)
(* decoding must reject encodings with missing or trailing bytes.          *)
(***************************************************************************)
EXTENDS Integers, Sequences, TLC, Json, IOUtils

LBytes == 2
ELimbs == 16
ULimbs == 4
INSTANCE Codec

Rec == ndJsonDeserialize(IOEnv.TRACE)
VARIABLES l
More == l <= Len(Rec)

WitnessOK(e) ==
  /\ e.res = "ok"                                        \* the library decodes the independent encoding ...
  /\ e.read = Len(e.mine)
  /\ e.mine = EncWitness(e.val)                          \* (sanity of the recorder's own encoder against the spec)
  /\ e.res_ser = "ok" /\ e.bytes = EncWitness(e.val)     \* ... and re-encodes it to exactly the documented layout
  /\ e.res_json = "ok" /\ e.json_back_eq                 \* JSON codec round trip
  /\ e.res_bigjson = "ok"
  /\ e.bigjson.identitySecret = e.dec.s /\ e.bigjson.userMessageLimit = e.dec.lim /\ e.bigjson.messageId = e.dec.mid
  /\ e.bigjson.x = e.dec.x /\ e.bigjson.externalNullifier = e.dec.e
  /\ Len(e.bigjson.pathElements) = Len(e.val.path) /\ Len(e.bigjson.identityPathIndex) = Len(e.val.bits)
  /\ ("pv" \in DOMAIN e => e.pv_bytes = EncProofValues(e.pv) /\ e.pv_back_eq /\ e.pv.x = e.val.x /\ e.pv.e = e.val.e)
  /\ \A k \in 1..Len(e.mutated) : e.mutated[k][2] = "err"        \* missing / trailing bytes: never Ok, never a crash

LineOK(e) ==
  CASE e.f = "fr" -> /\ e.res = "ok" /\ e.bytes = EncFr(e.val) /\ e.back = e.val /\ e.read = 32
                     /\ e.ser_el = EncFr(e.val) /\ e.de_el = e.val
    [] e.f = "vec_fr" -> /\ e.res = "ok" /\ e.bytes = EncVecFr(e.val)
                         /\ e.res_back = "ok" /\ e.back = e.val /\ e.read = Len(e.bytes)
    [] e.f = "vec_u8" -> /\ e.res = "ok" /\ e.bytes = EncVecU8(e.val)
                         /\ e.res_back = "ok" /\ e.back = e.val /\ e.read = Len(e.bytes)
    [] e.f = "usize" -> e.bytes = EncUsizeL(e.val)
    [] e.f = "vec_usize" -> e.bytes = EncVecUsize(e.val) /\ e.res = "ok" /\ e.back = e.val
    [] e.f = "witness" -> WitnessOK(e)
    [] e.f = "prove_input" -> e.bytes = EncProveInput(e.val)
    [] e.f = "verify_input" -> e.bytes = EncVerifyInput(e.val.proof, e.val.sig)
    [] e.f = "verify_input_long" -> /\ e.len = e.plen + 8 + e.siglen /\ e.tail_ok
                                    /\ e.head = e.proof \o EncLen(e.siglen)
    [] e.f = "identity" -> /\ e.bytes = EncFr(e.val[1]) \o EncFr(e.val[2]) \o EncFr(e.val[3]) \o EncFr(e.val[4])
                           /\ e.pair = <<e.val[1], e.val[2]>> /\ e.tuple = e.val
    [] e.f = "str" -> e.dec /\ e.hex
    \* the message a prover emits is the 288-byte layout whatever the writer accepts per call (the proof part is
    \* randomised; the 160 public-value bytes are those of the same request through a growable vector), it
    \* verifies, and a buffer that cannot hold it is an error
    [] e.f = "message" -> e.res = "ok" /\ e.len = 288 /\ e.pub = e.ref_pub /\ Len(e.pub) = 160 /\ e.accepted
    [] e.f = "message_small" -> e.res = "err"
    [] e.f = "layout" -> e.ok                 \* byte layouts of RLN outputs decoded by the recorder's own strict decoders
    [] OTHER -> FALSE

Init == l = 1
Good == More /\ LineOK(Rec[l]) /\ l' = l + 1
Deviation == More /\ ~LineOK(Rec[l]) /\ PrintT(<<"DEV", l>>) /\ PrintT(<<"WHY", l, Rec[l].f, Rec[l].res>>) /\ l' = l + 1
Next == Good \/ Deviation
Spec == Init /\ [][Next]_l
Accepted == (TLCGet("stats").diameter - 1 = Len(Rec)) \/ (PrintT(<<"REJECT", TLCGet("stats").diameter>>) /\ FALSE)
=============================================================================
