------------------------------ MODULE BigNat ------------------------------
EXTENDS Integers, Sequences, TLC
\* Naturals as little-endian base-256 sequences; all results normalised (no trailing zero limb).
B == 256
RECURSIVE Norm(_)
Norm(a) == IF Len(a) > 0 /\ a[Len(a)] = 0 THEN Norm(SubSeq(a, 1, Len(a)-1)) ELSE a
L(a, i) == IF i >= 1 /\ i <= Len(a) THEN a[i] ELSE 0
MaxLen(a, b) == IF Len(a) > Len(b) THEN Len(a) ELSE Len(b)
Zero == <<>>
One == <<1>>
IsZero(a) == Norm(a) = <<>>
Eq(a, b) == Norm(a) = Norm(b)
RECURSIVE LtR(_,_,_)
LtR(a, b, i) == IF i = 0 THEN FALSE ELSE IF L(a,i) < L(b,i) THEN TRUE ELSE IF L(a,i) > L(b,i) THEN FALSE ELSE LtR(a, b, i-1)
Lt(a, b) == LtR(a, b, MaxLen(a, b))
Le(a, b) == ~Lt(b, a)
RECURSIVE AddR(_,_,_,_,_)
AddR(a, b, i, c, acc) == IF i > MaxLen(a, b) THEN (IF c = 0 THEN acc ELSE Append(acc, c))
                         ELSE LET x == L(a,i) + L(b,i) + c IN AddR(a, b, i+1, x \div B, Append(acc, x % B))
Add(a, b) == Norm(AddR(a, b, 1, 0, <<>>))
RECURSIVE SubR(_,_,_,_,_)    \* requires a >= b
SubR(a, b, i, br, acc) == IF i > MaxLen(a, b) THEN acc
                          ELSE LET x == L(a,i) - L(b,i) - br IN
                               IF x < 0 THEN SubR(a, b, i+1, 1, Append(acc, x + B)) ELSE SubR(a, b, i+1, 0, Append(acc, x))
Sub(a, b) == Norm(SubR(a, b, 1, 0, <<>>))
RECURSIVE ColR(_,_,_,_,_)
ColR(a, b, k, i, acc) == \* sum_{i} a[i]*b[k+1-i]
   IF i > Len(a) \/ i > k THEN acc
   ELSE ColR(a, b, k, i+1, IF k+1-i <= Len(b) THEN acc + a[i]*b[k+1-i] ELSE acc)
RECURSIVE MulR(_,_,_,_,_)
MulR(a, b, k, c, acc) == IF k > Len(a) + Len(b) THEN acc
                         ELSE LET x == ColR(a, b, k, (IF k - Len(b) + 1 > 1 THEN k - Len(b) + 1 ELSE 1), 0) + c
                              IN MulR(a, b, k+1, x \div B, Append(acc, x % B))
MulPure(a, b) == IF Len(a) = 0 \/ Len(b) = 0 THEN <<>> ELSE Norm(MulR(a, b, 1, 0, <<>>))
\* Mul is the one operator with an optional TLC module override (BigNat.java: java.math.BigInteger); MulPure above
\* is its definition, and every check that relies on the override first runs BigNatCheck (override = definition
\* on boundary and random operands of that run).
Mul(a, b) == MulPure(a, b)
\* bits
Pow2(n) == 2^n
BitAt(a, i) == (L(a, (i \div 8) + 1) \div Pow2(i % 8)) % 2       \* i = 0 is the least significant bit
RECURSIVE BitLenR(_,_)
BitLenR(x, n) == IF x = 0 THEN n ELSE BitLenR(x \div 2, n+1)
BitLen(a) == LET n == Norm(a) IN IF Len(n) = 0 THEN 0 ELSE 8*(Len(n)-1) + BitLenR(n[Len(n)], 0)
\* shifts by k bits (k a TLA+ integer)
ShrBits(a, k) == LET by == k \div 8  bi == k % 8  n == Len(a) - by IN
   IF n <= 0 THEN <<>> ELSE Norm(TLCEval([i \in 1..n |-> ((L(a, i+by) \div Pow2(bi)) + (L(a, i+by+1) * Pow2(8-bi))) % B]))
ShlBits(a, k) == LET by == k \div 8  bi == k % 8  n == Len(a) + by + 1 IN
   Norm(TLCEval([i \in 1..n |-> IF i <= by THEN 0 ELSE ((L(a, i-by) * Pow2(bi)) % B) + (L(a, i-by-1) \div Pow2(8-bi))]))
MaskBits(a, nb) == LET full == nb \div 8  r == nb % 8 IN   \* a mod 2^nb
   Norm(TLCEval([i \in 1..(IF r = 0 THEN full ELSE full+1) |-> IF i <= full THEN L(a,i) ELSE L(a,i) % Pow2(r)]))
\* bytewise boolean ops via bit decomposition of a byte
RECURSIVE ByteOp(_,_,_,_)
ByteOp(op, x, y, n) == IF n = 8 THEN 0 ELSE
   LET bx == (x \div Pow2(n)) % 2  by == (y \div Pow2(n)) % 2
       r == CASE op = "and" -> bx*by [] op = "or" -> (bx + by + bx*by) % 2 [] op = "xor" -> (bx+by) % 2
   IN r * Pow2(n) + ByteOp(op, x, y, n+1)
BitOp(op, a, b) == Norm(TLCEval([i \in 1..MaxLen(a,b) |-> ByteOp(op, L(a,i), L(b,i), 0)]))
\* small conversions
RECURSIVE FromInt(_)
FromInt(n) == IF n = 0 THEN <<>> ELSE <<n % B>> \o FromInt(n \div B)
RECURSIVE ToIntR(_,_)
ToIntR(a, i) == IF i > Len(a) THEN 0 ELSE a[i] + B * ToIntR(a, i+1)
ToInt(a) == ToIntR(Norm(a), 1)           \* only for values known to be < 2^31
=============================================================================
