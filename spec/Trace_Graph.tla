---------------------------- MODULE Trace_Graph ----------------------------
(***************************************************************************)
(* Judge for C20: one line = one random well-formed graph with its input   *)
(* layout, the inputs, the value the evaluator computed for EVERY node,    *)
(* the outputs, the outputs of the stored-and-reloaded graph under three   *)
(* insertion orders of the named inputs, and the structural round trip.    *)
(* Every node value must follow Graph!NodeHolds (reference interpretation, *)
(* node by node), the inputs buffer must be the layout's placement, the    *)
(* outputs must be the values at the output indices, all orders and the    *)
(* stored graph must agree, and the round trip must be the identity.       *)
(***************************************************************************)
EXTENDS Json, IOUtils
PBN == <<1, 0, 0, 240, 147, 245, 225, 67, 145, 112, 185, 121, 72, 232, 51, 40, 93, 88, 129, 129, 182, 69,
         80, 184, 41, 160, 49, 225, 114, 78, 100, 48>>
INSTANCE Graph WITH P <- PBN

Rec == ndJsonDeserialize(IOEnv.TRACE)
VARIABLES l
More == l <= Len(Rec)

LineOK(e) ==
  /\ e.res = "ok"
  /\ Len(e.values) = Len(e.nodes)
  /\ \A n \in 1..Len(e.nodes) : NodeHolds(e.nodes, e.values, e.inputs, e.q, n)
  /\ Eq(e.inputs[1], One)                                                       \* slot 0 holds the constant 1
  /\ "out" \in DOMAIN e /\ Len(e.out) = Len(e.outputs)
  /\ \A k \in 1..Len(e.outputs) : Eq(e.out[k], e.values[e.outputs[k] + 1])      \* outputs = values at the output indices
  /\ e.ser
  /\ e.roundtrip.nodes /\ e.roundtrip.outputs /\ e.roundtrip.inputs              \* De(Ser(g)) = g
  /\ Len(e.calc) = 3 /\ \A k \in 1..3 : e.calc[k] = e.out                       \* stored graph, any insertion order: same outputs

Init == l = 1
Good == More /\ LineOK(Rec[l]) /\ l' = l + 1
Deviation == More /\ ~LineOK(Rec[l]) /\ PrintT(<<"DEV", l>>) /\ PrintT(<<"WHY", l, "graph", Rec[l].g, Rec[l].res>>) /\ l' = l + 1
Next == Good \/ Deviation
Spec == Init /\ [][Next]_l
Accepted == (TLCGet("stats").diameter - 1 = Len(Rec)) \/ (PrintT(<<"REJECT", TLCGet("stats").diameter>>) /\ FALSE)
=============================================================================
