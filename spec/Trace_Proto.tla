---------------------------- MODULE Trace_Proto ----------------------------
(***************************************************************************)
(* Judge for protocol traces (C01 C02 C03 C04 C12 C13) recorded at depth   *)
(* 20 with real Groth16 proofs.  The specification side is Rln.tla made    *)
(* concrete over the BN254 scalar field:                                   *)
(*   - field elements are 32 little-endian bytes (BigNat), canonical < P;  *)
(*   - H1/H2/H3 (Poseidon) and K (hash-to-field) are tables of facts       *)
(*     computed by the library on actual values - never conclusions;       *)
(*   - a zk-proof is a token: the 288 bytes "proof ++ public values" that  *)
(*     some successful proving call returned (Groth16 knowledge soundness: *)
(*     no other byte string carrying those values verifies, except by      *)
(*     re-randomisation, which no scenario performs);                      *)
(*   - Accept(kind, bytes) is Rln!AcceptRaw/Stateful/Roots on the strictly *)
(*     decoded message; the recorded verdict must equal it.                *)
(***************************************************************************)
EXTENDS BigNat, Json, IOUtils, FiniteSets

Rec == ndJsonDeserialize(IOEnv.TRACE)
Tab == JsonDeserialize(IOEnv.TABLE)
Ctl == JsonDeserialize(IOEnv.CTL)
Prop == Ctl.prop
SeqSet(s) == {s[k] : k \in 1..Len(s)}

\* BN254 scalar field order, little-endian bytes
PBN == <<1, 0, 0, 240, 147, 245, 225, 67, 145, 112, 185, 121, 72, 232, 51, 40, 93, 88, 129, 129, 182, 69,
         80, 184, 41, 160, 49, 225, 114, 78, 100, 48>>
TwoTo16 == 65536
Cap20 == 1048576

\* ---- tables of facts ----
V(id) == Tab.V[id + 1]                                     \* id -> 32 bytes
H1(a) == IF Tab.H1[a + 1] < 0 THEN Assert(FALSE, <<"missing H1 entry", a>>) ELSE Tab.H1[a + 1]
H2(a, b) ==
  LET row == Tab.H2[a + 1]
      hits == {k \in 1..Len(row) : row[k][1] = b}
  IN IF hits = {} THEN Assert(FALSE, <<"missing H2 entry", a, b>>) ELSE row[CHOOSE k \in hits : TRUE][2]
H3(a, b, c) ==
  LET hits == {k \in 1..Len(Tab.H3) : Tab.H3[k][1] = a /\ Tab.H3[k][2] = b /\ Tab.H3[k][3] = c}
  IN IF hits = {} THEN Assert(FALSE, <<"missing H3 entry", a, b, c>>) ELSE Tab.H3[CHOOSE k \in hits : TRUE][4]
KHits(bytes) == {k \in 1..Len(Tab.K) : Tab.K[k][1] = bytes}
KBytes(bytes) ==                                            \* hash-to-field of a byte string, as 32 bytes
  IF KHits(bytes) = {} THEN Assert(FALSE, <<"missing K entry for a signal of length", Len(bytes)>>)
  ELSE V(Tab.K[CHOOSE k \in KHits(bytes) : TRUE][2])

RECURSIVE FoldId(_, _, _, _)
FoldId(acc, sib, bits, k) ==
  IF k > Len(sib) THEN acc
  ELSE FoldId(IF bits[k] = 0 THEN H2(acc, sib[k]) ELSE H2(sib[k], acc), sib, bits, k + 1)

\* ---- strict decoding of a message: proof<128> | root | external nullifier | x | y | nullifier | [len<8> | signal] ----
Field(b, k) == SubSeq(b, 129 + 32 * k, 160 + 32 * k)        \* k = 0 root, 1 ext. nullifier, 2 x, 3 y, 4 nullifier
Canon(b) == \A k \in 0..4 : Lt(Field(b, k), PBN)
SigLenBN(b) == SubSeq(b, 289, 296)
Dec(kind, b) ==
  IF kind = "raw"
  THEN [ok |-> Len(b) >= 288 /\ Canon(b), sig |-> <<>>]
  ELSE IF Len(b) >= 296 /\ Le(SigLenBN(b), FromInt(Len(b) - 296)) /\ Canon(b)
       THEN [ok |-> TRUE, sig |-> SubSeq(b, 297, 296 + ToInt(SigLenBN(b)))]
       ELSE [ok |-> FALSE, sig |-> <<>>]

VARIABLES l,        \* next line
          honest,   \* the 288-byte tokens returned by successful proving calls
          msgs,     \* name -> what is known about a produced/crafted message
          used
vars == <<l, honest, msgs, used>>

\* ---- Rln!Accept* on decoded bytes ----
Accept(e) ==
  LET d == Dec(e.kind, e.bytes) IN
  /\ d.ok
  /\ SubSeq(e.bytes, 1, 288) \in honest
  /\ (e.kind # "raw" => Eq(KBytes(d.sig), Field(e.bytes, 2)))
  /\ (e.kind = "stateful" => Field(e.bytes, 0) = e.treeroot)
  /\ (e.kind = "roots" => (Len(e.roots) = 0 \/ Field(e.bytes, 0) \in SeqSet(e.roots)))
\* a trailing partial entry of a root list is ignored by the documented parser ("as many as fit")

VerifyOK(e) ==
  IF e.res \in {"nomsg", "noinstance"} THEN TRUE
  ELSE CASE Prop = "C13" ->       \* untrusted input: never a crash; malformed => false or error; else the verdict
              /\ e.res # "panic"
              /\ (~Dec(e.kind, e.bytes).ok => e.res \in {"false", "err"})
              /\ (Dec(e.kind, e.bytes).ok => ((e.res = "true") <=> Accept(e)))
         [] OTHER ->               \* C01 C02 C12: the verdict is exactly Accept (false and error both mean "not accepted")
              /\ ((e.res = "true") <=> Accept(e))
              /\ (Accept(e) => e.res = "true")
              \* C01: the message of an identity REGISTERED at the position it proved for (leaf = its rate commitment),
              \* verified unmodified against the same tree (and root sets containing the current root), is accepted
              /\ (Prop = "C01" /\ e.tag = "unmodified" /\ e.msg \in DOMAIN msgs /\ msgs[e.msg].member => e.res = "true")
              \* C02: the verifier's tree history no longer contains the message's root (the sender's leaf was removed
              \* just before): by collision resistance the current root differs, whatever the instance itself reports
              /\ (Prop = "C02" /\ e.must = "reject" => e.res # "true")

\* ---- proving ----
Unmutated(e) == DOMAIN e.mut = {}
PathOK(e) == Len(e.path) = 20 /\ Len(e.bits) = 20 /\ \A k \in 1..20 : e.bits[k] \in {0, 1}
Sat(e) == e.midv >= 0 /\ e.limv >= 0 /\ e.midv < TwoTo16 /\ e.midv < e.limv /\ e.limv <= e.midv + TwoTo16
\* requests that certainly cannot be satisfied (the reference relation was confirmed against the bundled circuit)
RangeUnsat(e) == (e.midv >= 0 /\ e.limv >= 0 /\ ~Sat(e))
ClearlyUnsat(e) ==
  \/ RangeUnsat(e)
  \/ (e.entry = "tree" /\ e.idx >= Cap20)
  \/ (e.entry # "tree" /\ (~PathOK(e) \/ "wtrunc" \in DOMAIN e.mut \/ "wappend" \in DOMAIN e.mut \/ "widxlen" \in DOMAIN e.mut))
  \/ (e.entry = "tree" /\ "reqlen" \in DOMAIN e.mut /\ e.mut.reqlen < 144 + e.siglen)
  \/ (e.entry = "tree" /\ "siglen" \in DOMAIN e.mut /\ e.mut.siglen > e.siglen)
RcOf(e) == H2(H1(e.s), e.lim)
Member(e) == "leaf" \in DOMAIN e /\ e.idx < Cap20 /\ PathOK(e) /\ e.leaf = RcOf(e)
             /\ "treeroot" \in DOMAIN e /\ FoldId(RcOf(e), e.path, e.bits, 1) = e.treeroot

\* Out(w): the published values as the RLN formulas demand (C04)
MulCert(e) ==     \* s + x * a1 = q * p + y  /\  y < p   (q is untrusted advice)
  LET a1 == H3(e.s, e.e, e.mid) IN
  /\ Eq(Add(V(e.s), Mul(V(e.x), V(a1))), Add(Mul(e.out.q, PBN), V(e.fields.y)))
  /\ Lt(V(e.fields.y), PBN)
OutOK(e) ==
  /\ e.fields.x = e.x /\ e.fields.e = e.e
  /\ e.fields.nul = H1(H3(e.s, e.e, e.mid))
  /\ e.fields.root = FoldId(RcOf(e), e.path, e.bits, 1)
  /\ e.fields.y >= 0 /\ MulCert(e)

ProveOK(e) ==
  IF e.res = "noinstance" THEN TRUE
  ELSE CASE Prop = "C01" -> (Unmutated(e) /\ Sat(e) /\ "leaf" \in DOMAIN e /\ e.leaf = RcOf(e)) => e.res = "ok"
         [] Prop = "C12" -> /\ e.res # "panic"
                            /\ (ClearlyUnsat(e) => e.res = "err")
         [] Prop = "C04" -> /\ (e.res = "ok" /\ PathOK(e) => OutOK(e))
                            /\ ("pv" \in DOMAIN e =>
                                  /\ e.pv = e.wo                                   \* native values = circuit outputs
                                  /\ (e.res = "ok" => e.pv = <<e.fields.y, e.fields.root, e.fields.nul, e.fields.x, e.fields.e>>))
                            /\ ("pv_err" \in DOMAIN e => ~Sat(e) \/ ~PathOK(e))
         [] OTHER -> TRUE

\* ---- recovery (C03; crash-freedom also C13) ----
Info(name) == msgs[name]
Known(name) == name \in DOMAIN msgs
RecoverOK(e) ==
  IF e.res \in {"nomsg", "noinstance"} THEN TRUE
  ELSE LET a == e.bytes_a
           b == e.bytes_b
       IN /\ e.res # "panic"
          /\ IF Len(a) < 288 \/ Len(b) < 288 THEN e.res = "err"
             ELSE IF Prop = "C13" THEN TRUE
             ELSE IF ~Eq(Field(a, 1), Field(b, 1)) THEN e.res = "ok" /\ e.out = <<>>         \* different external nullifiers: no secret
             ELSE IF Eq(Field(a, 2), Field(b, 2)) THEN e.res = "err" \/ (e.res = "ok" /\ e.out = <<>>)   \* degenerate pair
             ELSE IF Known(e.a) /\ Known(e.b) /\ Info(e.a).s = Info(e.b).s /\ Info(e.a).e = Info(e.b).e
                     /\ Info(e.a).mid = Info(e.b).mid /\ Info(e.a).clean /\ Info(e.b).clean
                     /\ SubSeq(a, 129, 288) = Info(e.a).values /\ SubSeq(b, 129, 288) = Info(e.b).values
                  THEN e.res = "ok" /\ e.out = V(Info(e.a).s)                                 \* exactly the identity secret
                  ELSE TRUE                    \* shares of different lines: any non-crashing outcome

\* nullifier clauses of C03, evaluated when a message is produced: against every message known so far
NullifierOK(e) ==
  (Prop = "C03" /\ e.res = "ok" /\ "fields" \in DOMAIN e) =>
     \A n \in DOMAIN msgs :
        LET m == msgs[n] IN
        m.clean =>
          /\ ((m.s = e.s /\ m.e = e.e /\ m.mid = e.mid) => m.nul = e.fields.nul)
          /\ ((m.s = e.s /\ (m.e # e.e \/ m.mid # e.mid)) => m.nul # e.fields.nul)

LineOK(e) ==
  CASE e.t = "verify" -> VerifyOK(e)
    [] e.t = "prove" -> ProveOK(e) /\ NullifierOK(e)
    [] e.t = "craft" -> e.res = "ok" /\ NullifierOK(e)
    [] e.t = "recover" -> RecoverOK(e)
    [] e.t = "reopen" -> e.res = "ok"                \* a restart on the same persistent location finds its tree
    [] OTHER -> TRUE

Advance(e) ==
  /\ l' = l + 1
  /\ honest' = (IF e.t = "prove" /\ e.res = "ok" /\ "msg" \in DOMAIN e THEN honest \cup {e.msg} ELSE honest)
  /\ msgs' = (IF e.t \in {"prove", "craft"} /\ e.res = "ok" /\ "msg" \in DOMAIN e /\ "name" \in DOMAIN e
              THEN [n \in DOMAIN msgs \cup {e.name} |->
                      IF n = e.name
                      THEN [s |-> e.s, e |-> e.e, mid |-> e.mid, x |-> e.x, nul |-> e.fields.nul,
                            values |-> SubSeq(e.msg, 129, 288),
                            clean |-> ("offline" \notin DOMAIN e),
                            member |-> (e.t = "prove" /\ "leaf" \in DOMAIN e /\ e.leaf = RcOf(e) /\ Unmutated(e) /\ Sat(e))]
                      ELSE msgs[n]]
              ELSE IF e.t = "reset" THEN [n \in {} |-> 0] ELSE msgs)

More == l <= Len(Rec)
Init == l = 1 /\ honest = {} /\ msgs = [n \in {} |-> 0] /\ used = {}

KFPred(name, e) == FALSE
KFMatches(e) == {name \in SeqSet(Ctl.kf) : KFPred(name, e)}

Good == More /\ LineOK(Rec[l]) /\ Advance(Rec[l]) /\ UNCHANGED used
Known1 ==
  /\ More /\ ~LineOK(Rec[l]) /\ KFMatches(Rec[l]) # {}
  /\ PrintT(<<"KF", CHOOSE n \in KFMatches(Rec[l]) : TRUE, l>>)
  /\ used' = used \cup KFMatches(Rec[l]) /\ Advance(Rec[l])
Why(e) ==
  CASE e.t = "verify" -> <<"verify", e.kind, "verdict", e.res, "decodes", Dec(e.kind, e.bytes).ok,
                           "accept", (IF Dec(e.kind, e.bytes).ok THEN Accept(e) ELSE FALSE), "mods", e.mods>>
    [] e.t = "prove" -> <<"prove", e.entry, "result", e.res, "mid", e.midv, "limit", e.limv, "idx", e.idx, "mut", e.mut>>
    [] e.t = "recover" -> <<"recover", e.a, e.b, "result", e.res, "output length", Len(e.out)>>
    [] OTHER -> <<e.t>>
Deviation ==
  /\ More /\ ~LineOK(Rec[l]) /\ KFMatches(Rec[l]) = {}
  /\ PrintT(<<"DEV", l>>)
  /\ PrintT(<<"WHY", l, Why(Rec[l])>>)
  /\ Advance(Rec[l]) /\ UNCHANGED used

Next == Good \/ Known1 \/ Deviation
Spec == Init /\ [][Next]_vars

Accepted ==
  \/ TLCGet("stats").diameter - 1 = Len(Rec)
  \/ /\ PrintT(<<"REJECT", TLCGet("stats").diameter>>)
     /\ FALSE
=============================================================================
