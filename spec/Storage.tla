------------------------------ MODULE Storage ------------------------------
(***************************************************************************)
(* The persistent tree backend at the granularity of storage writes.       *)
(* Transcribed from pmtree (tree.rs) + utils/src/pm_tree/sled_adapter.rs + *)
(* rln/src/pm_tree_adapter.rs: every tree operation is a PLAN = sequence   *)
(* of atomic storage steps (one put, one put_batch, or one flush); any     *)
(* step may be the one an injected fault hits (it then returns an error    *)
(* without effect and the operation aborts, reporting the error); at any   *)
(* quiescent point the instance may be closed and reopened (load).         *)
(*                                                                         *)
(* TLC checks C16 on the design:                                           *)
(*   Durable   - without a fault, what a reopen loads is the acknowledged  *)
(*               ideal state (leaves, high-water mark, metadata) and the   *)
(*               loaded root is the root of those leaves;                  *)
(*   Reported  - the operation hit by the fault reports an error;          *)
(*   Dur       - after a fault, a reopen finds every acknowledged update:  *)
(*               each leaf / mark / metadata is the acknowledged value or  *)
(*               the value the failed operation intended;                  *)
(*   CrashDur  - the process may die at ANY storage step (crash point):    *)
(*               writes go to the store's log (`unflushed`) and reach the  *)
(*               disk at a flush; a crash keeps a PREFIX of the unflushed  *)
(*               log (assumption about the log-structured store) and       *)
(*               loses the rest.  What a reopen then finds is, per         *)
(*               position, a value of some state acknowledged since the    *)
(*               last successful flush (or intended by the call in         *)
(*               flight) - in particular exactly the flushed state when    *)
(*               the crash comes right after a flush.                      *)
(***************************************************************************)
EXTENDS TreeOps

CONSTANTS D,        \* depth
          Vals,     \* leaf values
          MaxOps,   \* operations per history
          MaxBatch, \* longest range write
          Variant   \* "none", or a named faulty variant that TLC must refute (vacuity control):
                    \*   "lazy-flush" = the flush is skipped when only batch writes happened since the last one (seeded C16-m4)
                    \*   "memory-first" = what the external tree crate really does (known findings pm-next-memory-ahead and
                    \*                    pm-batch-root-memory-behind): the in-memory leaf count is raised when the operation
                    \*                    starts, the in-memory root is replaced only when it has completed

Cap == Pow2(D)

VARIABLES db,       \* durable key -> value (partial function)
          mem,      \* volatile [root, next] of the live instance
          ideal,    \* acknowledged ideal state [t : TreeOps state, meta]
          plan,     \* remaining storage steps of the operation in progress
          cur,      \* operation in progress: [name, post (intended ideal), memnext, memroot]
          nops, faultAt, wcount, failed, lastRes,
          disk,     \* what has reached the disk (db = disk + unflushed log, as the live instance sees it)
          unflushed,\* the store's log since the last flush: sequence of write steps (each a sequence of key-values)
          since,    \* the ideal states acknowledged since (and including) the last successful flush
          crashed
vars == <<db, mem, ideal, plan, cur, nops, faultAt, wcount, failed, lastRes, disk, unflushed, since, crashed>>

Get(d, k, dflt) == IF k \in DOMAIN d THEN d[k] ELSE dflt
PutK(d, k, v) == [x \in DOMAIN d \cup {k} |-> IF x = k THEN v ELSE d[x]]
RECURSIVE PutAll(_, _)
PutAll(d, kvs) == IF kvs = <<>> THEN d ELSE PutAll(PutK(d, Head(kvs).k, Head(kvs).v), Tail(kvs))

NodeKey(l, i) == <<"n", l, i>>
NextKey == <<"next">>
MetaKey == <<"meta">>
Elem(d, l, i) == Get(d, NodeKey(l, i), ZNode(D, l))           \* pmtree get_elem: db value or the cached default

KV(k, v) == [k |-> k, v |-> v]
StepPut(k, v) == [kind |-> "put", kvs |-> <<KV(k, v)>>]
StepBatch(kvs) == [kind |-> "batch", kvs |-> kvs]
StepFlush == [kind |-> "flush", kvs |-> <<>>]

\* ---- plans ----
\* set(i, v): leaf, then each ancestor bottom-up (computed from the db as it will be), then next_index
RECURSIVE AncSteps(_, _, _, _)
AncSteps(d, l, i, acc) ==
  IF l = 0 THEN acc
  ELSE LET b == (i \div 2) * 2
           val == <<"H", Elem(d, l, b), Elem(d, l, b + 1)>>
           d2 == PutK(d, NodeKey(l - 1, i \div 2), val)
       IN AncSteps(d2, l - 1, i \div 2, Append(acc, StepPut(NodeKey(l - 1, i \div 2), val)))
SetPlan(i, v) ==
  LET leaf == <<"L", v>>
      d1 == PutK(db, NodeKey(D, i), leaf)
  IN AncSteps(d1, D, i, <<StepPut(NodeKey(D, i), leaf)>>) \o <<StepPut(NextKey, Max(mem.next, i + 1))>>

SetToSeq(S) == CHOOSE f \in [1..Cardinality(S) -> S] : \A a, b \in 1..Cardinality(S) : a # b => f[a] # f[b]

\* range(s, vs): batch_insert computes the whole touched subtree in memory, writes it with ONE put_batch,
\* then (only if it grew) next_index with a second put
RECURSIVE NodeOver(_, _, _)
NodeOver(lv, l, i) ==      \* node (l,i) of the tree whose leaves are given by the total function lv
  IF l = D THEN <<"L", lv[i]>> ELSE <<"H", NodeOver(lv, l + 1, 2 * i), NodeOver(lv, l + 1, 2 * i + 1)>>
DbLeaf(d, i) == LET e == Elem(d, D, i) IN e[2]
RangePlan(s, vs) ==
  LET n == Len(vs)
      lv == [i \in 0..(Cap - 1) |-> IF i \in Rng(s, n) THEN vs[i - s + 1] ELSE DbLeaf(db, i)]
      touched == {<<l, i>> \in (0..D) \X (0..(Cap - 1)) :
                    i < Pow2(l) /\ \E p \in Rng(s, n) : p \div Pow2(D - l) = i}
      kvs == SetToSeq({KV(NodeKey(p[1], p[2]), NodeOver(lv, p[1], p[2])) : p \in touched})
  IN <<StepBatch(kvs)>> \o (IF s + n > mem.next THEN <<StepPut(NextKey, s + n)>> ELSE <<>>)


\* ---- start of an operation: fix its plan and its intended ideal post-state ----
Idle == cur.name = "none" /\ ~failed /\ ~crashed
NoOp == [name |-> "none", post |-> [t |-> Empty, meta |-> "none"]]
Begin(name, p, postT, postMeta) ==
  /\ Idle /\ nops < MaxOps
  /\ plan' = p
  /\ cur' = [name |-> name, post |-> [t |-> postT, meta |-> postMeta]]
  /\ nops' = nops + 1
  /\ mem' = IF Variant = "memory-first" THEN [mem EXCEPT !.next = postT.next] ELSE mem
  /\ UNCHANGED <<db, ideal, faultAt, wcount, failed, lastRes, disk, unflushed, since, crashed>>

StartSet == \E i \in 0..(Cap - 1), v \in Vals :
  Begin("set", SetPlan(i, v), SetF(D, ideal.t, i, v).st, ideal.meta)
StartDelete == \E i \in 0..(Cap - 1) :
  i < mem.next /\ Begin("delete", SetPlan(i, Z), DelF(D, ideal.t, i).st, ideal.meta)
StartAppend == \E v \in Vals :
  mem.next < Cap /\ Begin("append", SetPlan(mem.next, v), AppF(D, ideal.t, v).st, ideal.meta)
StartRange == \E s \in 0..(Cap - 1), n \in 1..MaxBatch : \E vs \in [1..n -> Vals] :
  s + n <= Cap /\ Begin("range", RangePlan(s, vs), RangeF(D, ideal.t, s, vs).st, ideal.meta)
StartMeta == \E m \in {"m1", "m2"} :
  Begin("meta", <<StepPut(MetaKey, m)>>, ideal.t, m)
StartFlush == Begin("flush", <<StepFlush>>, ideal.t, ideal.meta)

\* ---- one storage step ----
MemAfter(kvs) ==
  LET roots == {k \in 1..Len(kvs) : kvs[k].k = NodeKey(0, 0)}
      nexts == {k \in 1..Len(kvs) : kvs[k].k = NextKey}
  IN [root |-> IF roots = {} THEN mem.root ELSE kvs[CHOOSE k \in roots : TRUE].v,
      next |-> IF nexts = {} THEN mem.next ELSE kvs[CHOOSE k \in nexts : TRUE].v]

Step ==
  /\ cur.name # "none" /\ plan # <<>> /\ ~crashed
  /\ wcount' = wcount + 1
  /\ crashed' = crashed
  /\ IF wcount + 1 = faultAt
     THEN \* the storage call returns an error, nothing is written, the operation aborts and reports it
          /\ failed' = TRUE /\ lastRes' = "err" /\ plan' = <<>>
          /\ UNCHANGED <<db, mem, ideal, cur, disk, unflushed, since>>
     ELSE /\ db' = PutAll(db, Head(plan).kvs)
          /\ IF Head(plan).kind = "flush" /\ ~(Variant = "lazy-flush" /\ unflushed # <<>> /\ \A k \in 1..Len(unflushed) : Len(unflushed[k]) > 1)
             THEN disk' = db /\ unflushed' = <<>>
             ELSE IF Head(plan).kind = "flush" THEN UNCHANGED <<disk, unflushed>>
             ELSE disk' = disk /\ unflushed' = Append(unflushed, Head(plan).kvs)
          /\ since' = (IF Len(plan) # 1 THEN since
                       ELSE IF cur.name = "flush" THEN {cur.post} ELSE since \cup {cur.post})
          /\ mem' = IF Variant = "memory-first"
                    THEN (IF Len(plan) = 1 THEN [root |-> Root(D, cur.post.t), next |-> cur.post.t.next] ELSE mem)
                    ELSE MemAfter(Head(plan).kvs)
          /\ plan' = Tail(plan)
          /\ IF Len(plan) = 1
             THEN cur' = NoOp /\ ideal' = cur.post /\ lastRes' = "ok"
             ELSE UNCHANGED <<cur, ideal, lastRes>>
          /\ UNCHANGED failed
  /\ UNCHANGED <<nops, faultAt>>

Init ==
  /\ db = (NextKey :> 0)
  /\ mem = [root |-> ZNode(D, 0), next |-> 0]
  /\ ideal = [t |-> Empty, meta |-> "none"]
  /\ plan = <<>> /\ cur = NoOp /\ nops = 0
  /\ faultAt \in 0..(MaxOps * (D + 3))          \* 0 = no fault; every position of every history
  /\ wcount = 0 /\ failed = FALSE /\ lastRes = "none"
  /\ disk = (NextKey :> 0) /\ unflushed = <<>> /\ since = {[t |-> Empty, meta |-> "none"]} /\ crashed = FALSE

\* ---- crash point: the process dies before / between / inside storage steps ----
RECURSIVE ApplyLog(_, _)
ApplyLog(d, lg) == IF lg = <<>> THEN d ELSE ApplyLog(PutAll(d, Head(lg)), Tail(lg))
Crash ==
  /\ ~crashed /\ ~failed
  /\ \E k \in 0..Len(unflushed) :
       /\ disk' = ApplyLog(disk, SubSeq(unflushed, 1, k))
       /\ db' = disk'
  /\ crashed' = TRUE /\ unflushed' = <<>> /\ plan' = <<>>
  /\ UNCHANGED <<mem, ideal, cur, nops, faultAt, wcount, failed, lastRes, since>>

Next == StartSet \/ StartDelete \/ StartAppend \/ StartRange \/ StartMeta \/ StartFlush \/ Step \/ Crash
Spec == Init /\ [][Next]_vars

-----------------------------------------------------------------------------
\* what a reopen (pmtree load + adapter) would find
Loaded == [leaf |-> [i \in 0..(Cap - 1) |-> DbLeaf(db, i)],
           next |-> Get(db, NextKey, 0),
           meta |-> Get(db, MetaKey, "none"),
           root |-> Elem(db, 0, 0)]

Quiescent == cur.name = "none"

Durable ==
  (Quiescent /\ ~failed /\ ~crashed) =>
     /\ \A i \in 0..(Cap - 1) : Loaded.leaf[i] = Lf(ideal.t, i)
     /\ Loaded.next = ideal.t.next
     /\ Loaded.meta = ideal.meta
     /\ Loaded.root = Root(D, ideal.t)
     /\ mem.root = Root(D, ideal.t) /\ mem.next = ideal.t.next

\* the operation during which the fault fired reported an error (and nothing after it ran)
Reported == failed => lastRes = "err" /\ plan = <<>>

\* acknowledged updates survive: per position the acknowledged or the intended value
Dur ==
  failed =>
     /\ \A i \in 0..(Cap - 1) : Loaded.leaf[i] \in {Lf(ideal.t, i), Lf(cur.post.t, i)}
     /\ Loaded.next \in {ideal.t.next, cur.post.t.next}
     /\ Loaded.meta \in {ideal.meta, cur.post.meta}

\* what the live instance reports after a failed operation is what a reopen will find (first sentence of C16 under
\* fault sequences): holds for the design in which memory follows the writes, refuted for "memory-first"
LiveEqualsLoaded ==
  (failed /\ ~crashed) => (mem.next = Loaded.next /\ mem.root = Loaded.root)

\* crash points: what a reopen finds was acknowledged since the last successful flush (or intended by the call in flight)
CrashAlts == since \cup (IF cur.name # "none" THEN {cur.post} ELSE {})
CrashDur ==
  crashed =>
     /\ \A i \in 0..(Cap - 1) : Loaded.leaf[i] \in {Lf(s.t, i) : s \in CrashAlts}
     /\ Loaded.next \in {s.t.next : s \in CrashAlts}
     /\ Loaded.meta \in {s.meta : s \in CrashAlts}
\* ... and a successful flush is a barrier: nothing acknowledged before it can be lost afterwards
FlushBarrier ==
  (Quiescent /\ ~failed /\ ~crashed /\ unflushed = <<>>) => (disk = db /\ since = {ideal})

\* recorded for the reader: after a fault the loaded ROOT may be stale w.r.t. the loaded leaves
\* (fault between the leaf write and the root write); the property allows it, so this is not an invariant.
RootFreshAfterFault == failed => Loaded.root = NodeOver(Loaded.leaf, 0, 0)
=============================================================================
