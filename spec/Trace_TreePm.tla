--------------------------- MODULE Trace_TreePm ---------------------------
(***************************************************************************)
(* Trace specification for the persistent backend at node level: the       *)
(* actions of TreePm.tla (unchanged) constrained by what the recorder      *)
(* logged after each call of the real pmtree::MerkleTree<SledDB, Poseidon>:*)
(* result, next_index in memory and in the store, the root field, and the  *)
(* value read at every node position; the CONTENT OF THE STORE (whether a *)
(* value is stored under a key, and which) is compared too, as information.  The model state is carried through the *)
(* whole trace (no adoption); TreePm's invariants (Consistent, MarkOK,     *)
(* ProofOK, LoadedEqualsLive) are checked by TLC in every state of the     *)
(* trace.  Field elements are interned ids; the model's free hash terms    *)
(* are mapped to ids through the table of hash facts (the library's        *)
(* Poseidon on actual values; a missing fact is a tool error).             *)
(* A line the specification cannot take is reported (REJECT) and ends the  *)
(* run: the deviation is line diameter of the file.                        *)
(***************************************************************************)
EXTENDS TreePm, Json, IOUtils

Rec == ndJsonDeserialize(IOEnv.TRACE)
Tab == JsonDeserialize(IOEnv.TABLE)
VARIABLE l
More == l <= Len(Rec)

H2(a, b) ==
  LET row == Tab.H2[a + 1]
      hits == {k \in 1..Len(row) : row[k][1] = b}
  IN IF hits = {} THEN Assert(FALSE, <<"missing H2 entry", a, b>>)
     ELSE row[CHOOSE k \in hits : TRUE][2]
RECURSIVE Val(_)
Val(term) == IF term[1] = "L" THEN term[2] ELSE H2(Val(term[2]), Val(term[3]))      \* small leaf values are their own ids

Stored(d) == {<<lv, i, Val(d[Key(lv, i)])>> : <<lv, i>> \in {p \in (0..Depth) \X (0..(Cap - 1)) : p[2] < Pow2(p[1]) /\ Key(p[1], p[2]) \in DOMAIN d}}
Logged(e) == {<<e.nodes[k][1], e.nodes[k][2], e.nodes[k][3]>> : k \in 1..Len(e.nodes)}
\* the logged post-state is the model's post-state in everything an observer can see: result, leaf count, root field, and the value
\* READ at every node position (stored, or the level's default).  Which positions hold a stored value, and the raw next_index entry,
\* are an implementation choice the property does not constrain: a difference there is reported as LAYOUT information, never as a
\* deviation (a store that, say, leaves default values out and reads them back as defaults is observationally the ideal tree).
ReadsOK(e) == \A lv \in 0..Depth : \A i \in 0..(Pow2(lv) - 1) : e.reads[lv + 1][i + 1] = Val(GetElem(db', lv, i))
Observed(e) == /\ (e.op = "reload" \/ lastres'[1] = e.res)          \* (a reload reports nothing of its own)
               /\ pnext' = e.next
               /\ Val(proot') = e.root
               /\ ReadsOK(e)
Layout(e) == Stored(db') = Logged(e) /\ db'[KNext] = e.dbnext

New(e) == /\ e.depth = Depth /\ e.res = "ok"
          /\ ideal' = Empty /\ db' = NewDb /\ pnext' = 0 /\ proot' = Cache(0) /\ flags' = {} /\ lastres' = <<"ok", {"ok"}>>
Step(e) == CASE e.op = "new" -> New(e)
             [] e.op = "set" -> SetA(e.i, e.v)
             [] e.op = "delete" -> DeleteA(e.i)
             [] e.op = "append" -> AppendA(e.v)
             [] e.op = "range" -> RangeA(e.s, e.vs)
             [] e.op = "reload" -> Reload /\ e.res = "ok"
TInit == Init /\ l = 1
TNext == More /\ Step(Rec[l]) /\ Observed(Rec[l]) /\ (IF Layout(Rec[l]) THEN TRUE ELSE PrintT(<<"LAYOUT", l>>)) /\ l' = l + 1
TSpec == TInit /\ [][TNext]_<<vars, l>>
Accepted == (TLCGet("stats").diameter - 1 = Len(Rec)) \/ (PrintT(<<"REJECT", TLCGet("stats").diameter>>) /\ FALSE)
=============================================================================
