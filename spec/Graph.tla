------------------------------- MODULE Graph -------------------------------
(***************************************************************************)
(* A witness graph is a sequence of nodes with backward references only:   *)
(*   [k |-> "in", i]            the i-th slot of the inputs buffer          *)
(*   [k |-> "const", v]         a field constant                            *)
(*   [k |-> "uno", op, a]       Neg                                         *)
(*   [k |-> "op", op, a, b]     a binary operator of CircomOps              *)
(*   [k |-> "tres", a, b, c]    conditional                                 *)
(* (node references are 0-based, as recorded).  Reference interpretation:  *)
(* values are defined node by node (NodeHolds relates a node's value to    *)
(* the values of the nodes it refers to; relational for Mul/Div/Idiv/Mod   *)
(* with advice q).  Input placement: every named vector goes to            *)
(* offset..offset+len-1, slot 0 holds 1; Populate is defined over an       *)
(* arbitrary ORDER of the names so that TLC can check order independence.  *)
(***************************************************************************)
EXTENDS CircomOps

WellFormed(nodes) ==
  \A n \in 1..Len(nodes) :
    LET nd == nodes[n] IN
    CASE nd.k = "uno" -> nd.a + 1 < n
      [] nd.k = "op" -> nd.a + 1 < n /\ nd.b + 1 < n
      [] nd.k = "tres" -> nd.a + 1 < n /\ nd.b + 1 < n /\ nd.c + 1 < n
      [] OTHER -> TRUE

\* value of node n (1-based position) given the values vals of ALL nodes, the inputs buffer and advice q
NodeHolds(nodes, vals, inputs, q, n) ==
  LET nd == nodes[n]
      V(i) == vals[i + 1]
  IN /\ Lt(vals[n], P)
     /\ CASE nd.k = "in" -> nd.i + 1 <= Len(inputs) /\ Eq(vals[n], inputs[nd.i + 1])
          [] nd.k = "const" -> Eq(vals[n], nd.v)
          [] nd.k = "uno" -> Eq(vals[n], Neg(V(nd.a)))
          [] nd.k = "op" -> Holds(nd.op, V(nd.a), V(nd.b), vals[n], q[n])
          [] nd.k = "tres" -> Eq(vals[n], Tern(V(nd.a), V(nd.b), V(nd.c)))

\* input placement as one step per name, in the order given
RECURSIVE Populate(_, _, _, _)
Populate(buf, layout, named, order) ==
  IF order = <<>> THEN buf
  ELSE LET nm == Head(order)
           off == layout[nm][1]
           vs == named[nm]
       IN Populate([k \in 1..Len(buf) |-> IF k - 1 >= off /\ k - 1 < off + Len(vs) THEN vs[k - off] ELSE buf[k]],
                   layout, named, Tail(order))
=============================================================================
