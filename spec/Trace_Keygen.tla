---------------------------- MODULE Trace_Keygen ----------------------------
(***************************************************************************)
(* Judge / monitor for C14.  State: what every seed has produced so far    *)
(* (per variant) and every secret seen.  Each recorded generation must     *)
(*   - be canonically encoded (the exported bytes are the canonical bytes  *)
(*     of the values, each below the field order),                         *)
(*   - satisfy commitment = H(secret) and, extended, secret = H(trapdoor,  *)
(*     nullifier)  (hash facts computed by the library's Poseidon),        *)
(*   - seeded: equal what the same seed produced before, in whatever       *)
(*     process, thread or entry point; differ from every other seed's;     *)
(*     the documented reference seeds give the documented identities,      *)
(*   - unseeded: be fresh.                                                 *)
(* Lines of several processes are concatenated into one trace.             *)
(***************************************************************************)
EXTENDS BigNat, Json, IOUtils, FiniteSets

Rec == ndJsonDeserialize(IOEnv.TRACE)
PBN == <<1, 0, 0, 240, 147, 245, 225, 67, 145, 112, 185, 121, 72, 232, 51, 40, 93, 88, 129, 129, 182, 69,
         80, 184, 41, 160, 49, 225, 114, 78, 100, 48>>
PhraseSeed == <<65, 32, 115, 101, 101, 100, 32, 112, 104, 114, 97, 115, 101, 32, 101, 120, 97, 109, 112, 108, 101>>
BytesSeed == <<0, 1, 2, 3, 4, 5, 6, 7, 8, 9>>
RefPhraseSecret == <<163, 237, 132, 184, 45, 1, 248, 74, 190, 174, 145, 203, 215, 142, 121, 33, 59, 84, 146, 84, 83, 198, 231, 159, 241, 150, 4, 240, 243, 56, 223, 32>>
RefPhraseCommit == <<37, 195, 169, 213, 71, 81, 91, 62, 146, 148, 168, 178, 2, 86, 10, 114, 128, 220, 7, 69, 225, 99, 152, 127, 58, 4, 102, 93, 138, 167, 35, 18>>
RefBytesSecret == <<22, 103, 126, 129, 151, 197, 89, 40, 15, 72, 35, 250, 70, 9, 195, 24, 57, 96, 111, 97, 87, 242, 179, 245, 189, 1, 122, 126, 108, 206, 102, 7>>
RefBytesCommit == <<31, 245, 206, 116, 140, 13, 54, 174, 143, 80, 99, 176, 59, 135, 75, 27, 168, 22, 202, 191, 5, 30, 86, 157, 157, 111, 13, 92, 43, 109, 241, 11>>
RefExtNull == <<180, 80, 143, 41, 43, 126, 43, 116, 83, 139, 237, 247, 192, 196, 91, 88, 47, 111, 207, 4, 212, 137, 158, 202, 91, 59, 200, 123, 76, 113, 24, 31>>
RefExtSecret == <<33, 229, 248, 113, 230, 148, 57, 207, 75, 93, 91, 219, 18, 220, 98, 148, 171, 85, 15, 240, 202, 242, 255, 134, 54, 175, 171, 167, 170, 98, 202, 42>>
RefExtCommit == <<92, 76, 115, 241, 180, 152, 209, 172, 23, 155, 143, 196, 20, 135, 24, 147, 83, 40, 83, 21, 88, 66, 104, 229, 210, 32, 131, 10, 170, 102, 139, 6>>

VARIABLES l,
          seeded,     \* set of <<seed, ext, values>> produced so far
          secrets     \* every secret generated so far: set of <<kind, bytes>> (kind = "s" seeded with its seed, "u" unseeded)
vars == <<l, seeded, secrets>>
More == l <= Len(Rec)

RECURSIVE Cat(_)
Cat(ss) == IF ss = <<>> THEN <<>> ELSE Head(ss) \o Cat(Tail(ss))
SecretOf(e) == IF e.ext THEN e.valb[3] ELSE e.valb[1]

Shape(e) ==
  /\ e.res = "ok"
  /\ Len(e.valb) = (IF e.ext THEN 4 ELSE 2)
  /\ \A k \in 1..Len(e.valb) : Len(e.valb[k]) = 32 /\ Lt(e.valb[k], PBN)                  \* canonical field elements
  /\ ("raw" \in DOMAIN e => e.raw = Cat(e.valb))                                          \* exported bytes = canonical bytes, in order
  /\ IF e.ext THEN e.valb[3] = e.h2_tn /\ e.valb[4] = e.h1_s                              \* secret = H(trapdoor, nullifier), commitment = H(secret)
     ELSE e.valb[2] = e.h1_s

Reference(e) ==
  /\ (e.seed = PhraseSeed /\ ~e.ext => e.valb = <<RefPhraseSecret, RefPhraseCommit>>)
  /\ (e.seed = BytesSeed /\ ~e.ext => e.valb = <<RefBytesSecret, RefBytesCommit>>)
  /\ (e.seed = BytesSeed /\ e.ext => e.valb = <<RefBytesSecret, RefExtNull, RefExtSecret, RefExtCommit>>)

SeededOK(e) ==
  /\ Reference(e)
  /\ \A x \in seeded :
       /\ (x[1] = e.seed /\ x[2] = e.ext => x[3] = e.valb)                      \* deterministic in the seed alone
       /\ (x[1] # e.seed /\ x[2] = e.ext => x[3] # e.valb /\ SecretOf(e) # (IF x[2] THEN x[3][3] ELSE x[3][1]))   \* distinct seeds, distinct identities
  /\ \A y \in secrets : y[1] = "u" => y[2] # SecretOf(e)

UnseededOK(e) == \A y \in secrets : y[2] # SecretOf(e)                        \* fresh: never produced before, seeded or not

LineOK(e) == Shape(e) /\ (IF e.seeded THEN SeededOK(e) ELSE UnseededOK(e))

Advance(e) ==
  /\ l' = l + 1
  /\ IF e.res = "ok" /\ Len(e.valb) \in {2, 4}
     THEN /\ seeded' = (IF e.seeded THEN seeded \cup {<<e.seed, e.ext, e.valb>>} ELSE seeded)
          /\ secrets' = secrets \cup {<<(IF e.seeded THEN "s" ELSE "u"), SecretOf(e)>>}
     ELSE UNCHANGED <<seeded, secrets>>
Init == l = 1 /\ seeded = {} /\ secrets = {}
Good == More /\ LineOK(Rec[l]) /\ Advance(Rec[l])
Deviation == More /\ ~LineOK(Rec[l]) /\ PrintT(<<"DEV", l>>)
             /\ PrintT(<<"WHY", l, Rec[l].entry, "ext", Rec[l].ext, "seeded", Rec[l].seeded, "thread", Rec[l].thr, "process", Rec[l].proc, "shape ok", Shape(Rec[l])>>)
             /\ Advance(Rec[l])
Next == Good \/ Deviation
Spec == Init /\ [][Next]_vars
Accepted == (TLCGet("stats").diameter - 1 = Len(Rec)) \/ (PrintT(<<"REJECT", TLCGet("stats").diameter>>) /\ FALSE)
=============================================================================
