------------------------------ MODULE MC_Codec ------------------------------
(* exhaustive algebra of the formats on a small instance: 1-byte limbs, 2-limb elements, 1-limb lengths *)
EXTENDS Codec, FiniteSets
LV == {0, 255}
Els == [1..ELimbs -> LV]
Paths == UNION {[1..n -> Els] : n \in 0..2}
Bits == UNION {[1..n -> {0, 1}] : n \in 0..2}
Wits == [s : {<<1, 0>>, <<255, 255>>}, lim : {<<2, 0>>}, mid : {<<1, 0>>}, path : Paths, bits : Bits, x : {<<0, 0>>, <<0, 1>>}, e : {<<7, 0>>}]
VARIABLE dummy
Init == dummy = 0
Next == UNCHANGED dummy
RoundTrip == \A w \in Wits : DecWitness(EncWitness(w)) = [ok |-> TRUE, w |-> w]
NoPrefix == \A w \in Wits : LET b == EncWitness(w) IN \A k \in 0..(Len(b) - 1) : ~DecWitness(SubSeq(b, 1, k)).ok
NoExtension == \A w \in Wits : \A x \in {0, 1, 255} : ~DecWitness(Append(EncWitness(w), x)).ok
\* (injectivity of the encoders follows from RoundTrip: the decoder is a left inverse)
VecRoundTrip == \A a \in Paths : LET b == EncVecFr(a) IN
                  DecLenAt(b, 0) = Len(a) /\ \A k \in 1..Len(a) : DecFrAt(b, USize + (k - 1) * ESize) = a[k]
ASSUME RoundTrip /\ NoPrefix /\ NoExtension /\ VecRoundTrip
ASSUME PrintT(<<"CODEC-MC", Cardinality(Wits), "witnesses: round trip, no proper prefix decodes, no extension decodes">>)
=============================================================================
