SPECIFICATION Spec
CONSTANTS
  Depth = 3
  Vals = {0, 1}
  MaxBatch = 3
  MaxRem = 1
  Variant = "none"
INVARIANTS Consistent MarkOK ResultOK
CHECK_DEADLOCK FALSE
