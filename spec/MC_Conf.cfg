SPECIFICATION Spec
CONSTANTS
  Configs = {"default", "optimal", "stateless"}
  Depth = 2
  Vals = {1}
  MaxMsgs = 1
INVARIANTS SameRoots SamePaths CrossAccept
CHECK_DEADLOCK FALSE
