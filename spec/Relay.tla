------------------------------- MODULE Relay -------------------------------
(***************************************************************************)
(* An RLN-protected relay, the system the library exists for.              *)
(*                                                                         *)
(* Members register their rate commitment in the membership tree, publish  *)
(* messages - each carries a proof for (epoch, message id, signal) against *)
(* the tree root of the time -, and a validator keeps a window of          *)
(* acceptable roots and a nullifier log: it rejects messages whose root it *)
(* does not accept, drops duplicates, and on double signalling (same       *)
(* nullifier, other share) recovers the sender's secret and removes the    *)
(* member ("slashing").  The window and the log live outside the library;  *)
(* everything they are computed FROM is the library's: roots, proofs,      *)
(* verdicts of verify_with_roots, nullifiers, shares, recovered secrets.   *)
(*                                                                         *)
(* Abstraction: a root is identified with the tree content it commits to   *)
(* (collision resistance), a nullifier with (member, epoch, message id), a *)
(* share with the signal; a proof exists exactly for the statements the    *)
(* prover can make (C12): message id below the limit.  The circuit does   *)
(* not compare the root with anything - it computes it from the prover's   *)
(* leaf and path -, so membership is enforced by the validator's window:   *)
(* a prover whose leaf is not in the tree proves against the root of the   *)
(* tree with its leaf put back, which the window holds only if the tree    *)
(* recently looked like that (first found by replaying this model against  *)
(* the library: a withdrawn member's message verified against an old root).*)
(*                                                                         *)
(* Actions are the steps of the real deployment, one per API interaction:  *)
(* Register / Withdraw (tree update), Publish (prove), Validate            *)
(* (verify_with_roots + log lookup), Slash (recover_id_secret + removal),  *)
(* so that Trace_Relay can replay them against recorded executions.        *)
(***************************************************************************)
EXTENDS Integers, Sequences, FiniteSets, TLC, Json

CONSTANTS Members,     \* identities; each owns one tree position
          Limit,       \* user message limit (messages per epoch)
          Epochs,      \* external nullifiers
          Sigs,        \* signals
          Mids,        \* message ids provers try (some at or above Limit)
          Window,      \* number of roots the validator accepts
          MaxNet,      \* messages published
          MaxTreeOps,  \* registrations + withdrawals (slashing not counted)
          HistLen      \* > 0: simulation mode, print the action history at this length

VARIABLES members,     \* SUBSET Members : the tree's content
          window,      \* Seq(root) : acceptable roots, newest last
          net,         \* Seq(message)
          verdict,     \* [1..Len(net) -> {"none", "valid", "dup", "spam", "invalid"}]
          log,         \* nullifier log : set of [key, sig]
          slashed,     \* SUBSET Members
          everreg,     \* SUBSET Members : registered at some time
          treeops,
          hist
vars == <<members, window, net, verdict, log, slashed, everreg, treeops, hist>>

TreeRoot(c) == c                                  \* a root is identified with the content it commits to
\* The circuit computes the root from the prover's own leaf and the path it is given, so a prover whose
\* leaf is not (any more) in the tree still obtains a proof - for the root of the tree WITH its leaf put
\* back at its position.  That is a tree's root exactly when the tree once looked like that.
ProvenRoot(m, c) == TreeRoot(c \cup {m})
Key(msg) == <<msg.m, msg.e, msg.mid>>
Push(w, c) == IF Len(w) < Window THEN Append(w, c) ELSE Append(Tail(w), c)
Range(s) == {s[i] : i \in DOMAIN s}
Record(op) == IF HistLen > 0 THEN Append(hist, op) ELSE hist
Room == HistLen = 0 \/ Len(hist) < HistLen

Init ==
  /\ members = {} /\ window = <<TreeRoot({})>> /\ net = <<>> /\ verdict = <<>> /\ log = {} /\ slashed = {}
  /\ everreg = {} /\ treeops = 0 /\ hist = <<>>

Register(m) ==
  /\ Room /\ treeops < MaxTreeOps /\ m \notin members /\ m \notin slashed
  /\ members' = members \cup {m}
  /\ window' = Push(window, TreeRoot(members'))
  /\ treeops' = treeops + 1
  /\ everreg' = everreg \cup {m}
  /\ hist' = Record([a |-> "reg", m |-> m])
  /\ UNCHANGED <<net, verdict, log, slashed>>

Withdraw(m) ==
  /\ Room /\ treeops < MaxTreeOps /\ m \in members
  /\ members' = members \ {m}
  /\ window' = Push(window, TreeRoot(members'))
  /\ treeops' = treeops + 1
  /\ hist' = Record([a |-> "wd", m |-> m])
  /\ UNCHANGED <<net, verdict, log, slashed, everreg>>

\* the prover's answer: a message for a satisfiable request, an error otherwise (nothing on the wire)
CanProve(mid) == mid < Limit
Publish(m, e, mid, sig) ==
  /\ Room /\ Len(net) < MaxNet /\ CanProve(mid)
  /\ net' = Append(net, [m |-> m, e |-> e, mid |-> mid, sig |-> sig,
                         root |-> ProvenRoot(m, members)])
  /\ verdict' = Append(verdict, "none")
  /\ hist' = Record([a |-> "pub", m |-> m, e |-> e, mid |-> mid, sig |-> sig])
  /\ UNCHANGED <<members, window, log, slashed, everreg, treeops>>
PublishRejected(m, e, mid, sig) ==
  /\ Room /\ ~CanProve(mid)
  /\ hist' = Record([a |-> "pubrej", m |-> m, e |-> e, mid |-> mid, sig |-> sig])
  /\ HistLen > 0                  \* a pure stuttering step of the design; recorded for the replay only
  /\ UNCHANGED <<members, window, net, verdict, log, slashed, everreg, treeops>>

Classify(i) ==
  LET msg == net[i]
      prior == {l \in log : l.key = Key(msg)}
  IN IF msg.root \notin Range(window) THEN "invalid"
     ELSE IF \E l \in prior : l.sig = msg.sig THEN "dup"
     ELSE IF prior # {} THEN "spam"
     ELSE "valid"
Validate(i) ==
  /\ Room /\ i \in DOMAIN net /\ verdict[i] = "none"
  /\ verdict' = [verdict EXCEPT ![i] = Classify(i)]
  /\ log' = IF Classify(i) = "valid" THEN log \cup {[key |-> Key(net[i]), sig |-> net[i].sig]} ELSE log
  /\ hist' = Record([a |-> "val", i |-> i])
  /\ UNCHANGED <<members, window, net, slashed, everreg, treeops>>

\* double signalling was seen: recover the secret from the two shares and remove the member
Slash(i) ==
  /\ Room /\ i \in DOMAIN net /\ verdict[i] = "spam" /\ net[i].m \notin slashed
  /\ slashed' = slashed \cup {net[i].m}
  /\ members' = members \ {net[i].m}
  /\ window' = IF net[i].m \in members THEN Push(window, TreeRoot(members')) ELSE window
  /\ hist' = Record([a |-> "slash", i |-> i])
  /\ UNCHANGED <<net, verdict, log, everreg, treeops>>

Done == /\ HistLen > 0 /\ Len(hist) = HistLen
        /\ PrintT(<<"BEHAVIOUR", ToJson(hist)>>)
        /\ UNCHANGED vars

Next ==
  \/ \E m \in Members : Register(m) \/ Withdraw(m)
  \/ \E m \in Members, e \in Epochs, mid \in Mids, sig \in Sigs : Publish(m, e, mid, sig) \/ PublishRejected(m, e, mid, sig)
  \/ \E i \in 1..MaxNet : Validate(i) \/ Slash(i)
  \/ Done
Spec == Init /\ [][Next]_vars
FairSpec == Spec /\ \A i \in 1..MaxNet : WF_vars(Slash(i))

-----------------------------------------------------------------------------
TypeOK ==
  /\ members \subseteq everreg /\ everreg \subseteq Members /\ slashed \subseteq everreg
  /\ Len(window) >= 1 /\ Len(window) <= Window /\ window[Len(window)] = TreeRoot(members)
  /\ Len(net) = Len(verdict) /\ Len(net) <= MaxNet

\* the point of the whole construction: per member and epoch at most Limit messages are ever relayed
RateLimit ==
  \A m \in Members, e \in Epochs :
    Cardinality({i \in DOMAIN net : verdict[i] = "valid" /\ net[i].m = m /\ net[i].e = e}) <= Limit

\* nobody is slashed who did not publish two different signals under one (epoch, message id)
HonestSafe ==
  \A m \in slashed : \E i, j \in DOMAIN net :
     net[i].m = m /\ net[j].m = m /\ Key(net[i]) = Key(net[j]) /\ net[i].sig # net[j].sig

\* a slashed member is out of the tree for good
SlashedOut == slashed \cap members = {}

\* whatever the validator relays came with a root from its window, i.e. from a member of a recent tree
RelayedWasMember ==
  \A i \in DOMAIN net : verdict[i] \in {"valid", "dup", "spam"} => net[i].m \in net[i].root

\* a message of somebody who was never registered is never relayed
NeverRegisteredNeverRelayed ==
  \A i \in DOMAIN net : verdict[i] \in {"valid", "dup", "spam"} => net[i].m \in everreg

\* two relayed messages of one member under one (epoch, message id) carry the same signal
OnePerSlot ==
  \A i, j \in DOMAIN net :
    (verdict[i] = "valid" /\ verdict[j] = "valid" /\ Key(net[i]) = Key(net[j])) => i = j

\* liveness (FairSpec): detected double signalling leads to removal
SpamLeadsToSlash ==
  \A i \in 1..MaxNet : (i \in DOMAIN net /\ verdict[i] = "spam") ~> (i \in DOMAIN net /\ net[i].m \in slashed)
=============================================================================
