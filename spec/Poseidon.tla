------------------------------ MODULE Poseidon ------------------------------
(***************************************************************************)
(* The Poseidon permutation over the BN254 scalar field with circomlib's   *)
(* parameters: t = n + 1, RF = 8 full rounds, RP partial rounds (table),   *)
(* round = add round constants; x^5 s-box (all elements in a full round,   *)
(* the first in a partial round); multiply by the MDS matrix.  The hash    *)
(* of n elements is element 0 of the state after all rounds, starting from *)
(* <<0, inputs>>.  Constants: the circomlib / reference-script tables      *)
(* (poseidon_constants.json, extracted from the tables pinned in the       *)
(* repository's tests - NOT produced by the generator under test).         *)
(* Every modular product is checked relationally: a * b = q * P + c with   *)
(* the recorded quotient q as untrusted advice.                            *)
(***************************************************************************)
EXTENDS BigNat

CONSTANTS P,     \* the field order
          K      \* the parameter tables [T, RF, RP, C, M] (read once by the instantiating module)
Red(a) == IF Le(P, a) THEN Sub(a, P) ELSE a
MulOK(a, b, c, q) == Eq(Mul(a, b), Add(Mul(q, P), c)) /\ Lt(c, P)

RECURSIVE Dot(_, _, _)
Dot(row, vec, j) == IF j > Len(vec) THEN Zero ELSE Add(Mul(row[j], vec[j]), Dot(row, vec, j + 1))

\* one round: state sin -> rd.out, with the recorder's intermediate values rd.sbox and quotients rd.q
RoundOK(idx, r, sin, rd) ==
  LET t == idx + 1                                   \* idx = n = t - 1 is the 1-based index into the tables
      rf == K.RF[idx]
      rp == K.RP[idx]
      full == (r - 1 < rf \div 2) \/ (r - 1 >= rf \div 2 + rp)
      a == TLCEval([i \in 1..t |-> Red(Add(sin[i], K.C[idx][(r - 1) * t + i]))])
      boxed == IF full THEN 1..t ELSE {1}
      b == TLCEval([i \in 1..t |-> IF i \in boxed THEN rd.sbox[i].x5 ELSE a[i]])
  IN /\ Len(rd.sbox) = (IF full THEN t ELSE 1) /\ Len(rd.out) = t
     /\ \A i \in boxed : /\ MulOK(a[i], a[i], rd.sbox[i].x2, rd.sbox[i].q1)
                         /\ MulOK(rd.sbox[i].x2, rd.sbox[i].x2, rd.sbox[i].x4, rd.sbox[i].q2)
                         /\ MulOK(rd.sbox[i].x4, a[i], rd.sbox[i].x5, rd.sbox[i].q3)
     /\ \A i \in 1..t : Eq(Dot(K.M[idx][i], b, 1), Add(Mul(rd.q[i], P), rd.out[i])) /\ Lt(rd.out[i], P)

RECURSIVE RoundsOK(_, _, _, _)
RoundsOK(idx, r, sin, rounds) ==
  IF r > Len(rounds) THEN TRUE
  ELSE RoundOK(idx, r, sin, rounds[r]) /\ RoundsOK(idx, r + 1, rounds[r].out, rounds)

\* the recorded computation is a run of the permutation on <<0, inp>> and ends in `out`
HashIs(inp, rounds, out) ==
  LET n == Len(inp) IN
  /\ n \in 1..8 /\ \A k \in 1..n : Lt(inp[k], P)
  /\ Len(rounds) = K.RF[n] + K.RP[n]
  /\ RoundsOK(n, 1, <<Zero>> \o inp, rounds)
  /\ Eq(rounds[Len(rounds)].out[1], out)
=============================================================================
