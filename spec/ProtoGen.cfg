
