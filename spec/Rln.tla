-------------------------------- MODULE Rln --------------------------------
(***************************************************************************)
(* The RLN protocol over a small prime field with abstract cryptography:   *)
(*   - the membership tree (depth 1: two positions) holds rate commitments *)
(*     RC(s, limit) = H(H(s), limit) as free terms (collision resistance); *)
(*   - a1 = H(s, e, mid) is a fixed injective table into F \ {0}           *)
(*     (deterministic oracle: collision resistance as an assumption);      *)
(*   - a zk-proof is a token bound to the statement it was produced for    *)
(*     (Groth16 knowledge soundness): tok = <<y, root, nullifier, x, e>>;  *)
(*   - the adversary may copy a message and overwrite any one public field *)
(*     (or several, over several steps) - the token stays what it was.     *)
(* Actions mirror the API: register / remove a member, prove (only for a   *)
(* satisfiable request; an unsatisfiable one yields an error and nothing   *)
(* on the wire), tamper, and the three verifiers + recovery as definitions *)
(* evaluated in every state.                                               *)
(* TLC checks: Completeness (C01), Soundness (C02), Shamir (C03),          *)
(* ProverHonest (C12) in every reachable state.                            *)
(***************************************************************************)
EXTENDS Integers, Sequences, FiniteSets, TLC

CONSTANTS P,          \* field order (prime)
          Secrets,    \* identity secrets
          Limits,     \* message limits
          MaxLimit,   \* circuit range for the limit
          Epochs,     \* external nullifiers
          Xs,         \* signal hashes (a signal is identified with its hash; the hash is injective)
          Mids,       \* message ids tried by provers (some at or above the limit)
          MaxWire,    \* messages on the wire
          MaxTamper,  \* adversary steps
          WithRemove  \* members may be removed

F == 0..(P - 1)
Inv(a) == CHOOSE b \in 1..(P - 1) : (a * b) % P = 1
Cap == 2
Z == <<"Z">>
RC(s, lim) == <<"rc", <<"idc", s>>, lim>>
Root(lv) == <<"h", lv[0], lv[1]>>
FoldPath(leaf, i, sib) == IF i = 0 THEN <<"h", leaf, sib>> ELSE <<"h", sib, leaf>>

\* injective a1 table into 1..P-1 (checked by ASSUME below)
Rank(v, S) == Cardinality({u \in S : u < v})               \* position of v in the (integer) set S
SecIdx(s) == Rank(s, Secrets)
EpIdx(e) == Rank(e, Epochs)
MidIdx(m) == Rank(m, Mids)
A1(s, e, mid) == 1 + SecIdx(s) + Cardinality(Secrets) * (EpIdx(e) + Cardinality(Epochs) * MidIdx(mid))
ASSUME Cardinality(Secrets) * Cardinality(Epochs) * Cardinality(Mids) < P
ASSUME \A s1, s2 \in Secrets, e1, e2 \in Epochs, m1, m2 \in Mids :
          A1(s1, e1, m1) = A1(s2, e2, m2) => s1 = s2 /\ e1 = e2 /\ m1 = m2

VARIABLES leaves,     \* the verifier's / prover's membership tree
          wire,       \* messages visible to verifiers (honest and tampered)
          honest,     \* messages produced by the prover
          ntamper,    \* adversary steps taken
          nreject     \* proving requests answered with an error
vars == <<leaves, wire, honest, ntamper, nreject>>

\* the circuit's satisfiability for the range part
Sat(mid, lim) == mid < lim /\ lim <= MaxLimit

Msg(s, lim, mid, e, x, i, a1) ==
  LET y == (s + x * a1) % P
      nul == <<"nul", a1>>
      root == FoldPath(RC(s, lim), i, leaves[1 - i])
  IN [tok |-> <<y, root, nul, x, e>>, root |-> root, e |-> e, x |-> x, y |-> y, nul |-> nul, sig |-> x,
      wit |-> [s |-> s, lim |-> lim, mid |-> mid, i |-> i]]       \* wit: ghost, invisible to verifiers

Init == leaves = [i \in 0..(Cap - 1) |-> Z] /\ wire = {} /\ honest = {} /\ ntamper = 0 /\ nreject = 0

Register(i, s, lim) ==
  /\ leaves' = [leaves EXCEPT ![i] = RC(s, lim)]
  /\ UNCHANGED <<wire, honest, ntamper, nreject>>
Remove(i) ==
  /\ WithRemove /\ leaves[i] # Z
  /\ leaves' = [leaves EXCEPT ![i] = Z]
  /\ UNCHANGED <<wire, honest, ntamper, nreject>>
\* a satisfiable request (the path is the prover's view of position i; the identity need not be a member:
\* the caller-supplied-witness entry points prove whatever they are given)
Prove(s, lim, mid, e, x, i) ==
  /\ Cardinality(wire) < MaxWire /\ Sat(mid, lim)
  /\ LET m == Msg(s, lim, mid, e, x, i, A1(s, e, mid)) IN wire' = wire \cup {m} /\ honest' = honest \cup {m}
  /\ UNCHANGED <<leaves, ntamper, nreject>>
\* an unsatisfiable request: an error, nothing reaches the wire
ProveReject(s, lim, mid) ==
  /\ ~Sat(mid, lim) /\ nreject < 1
  /\ nreject' = nreject + 1
  /\ UNCHANGED <<leaves, wire, honest, ntamper>>
Tamper(m, f, v) ==
  /\ ntamper < MaxTamper /\ m \in wire
  /\ wire' = wire \cup {CASE f = "x" -> [m EXCEPT !.x = v] [] f = "y" -> [m EXCEPT !.y = v]
                          [] f = "e" -> [m EXCEPT !.e = v] [] f = "sig" -> [m EXCEPT !.sig = v]
                          [] f = "root" -> [m EXCEPT !.root = Root(leaves)]
                          [] f = "nul" -> [m EXCEPT !.nul = <<"nul", v>>]}
  /\ ntamper' = ntamper + 1 /\ UNCHANGED <<leaves, honest, nreject>>

Next ==
  \/ \E i \in 0..(Cap - 1), s \in Secrets, lim \in Limits : Register(i, s, lim)
  \/ \E i \in 0..(Cap - 1) : Remove(i)
  \/ \E s \in Secrets, lim \in Limits, mid \in Mids, e \in Epochs, x \in Xs, i \in 0..(Cap - 1) : Prove(s, lim, mid, e, x, i)
  \/ \E s \in Secrets, lim \in Limits, mid \in Mids : ProveReject(s, lim, mid)
  \/ \E m \in wire, f \in {"x", "y", "e", "sig", "root", "nul"}, v \in {0, 1} : Tamper(m, f, v)
Spec == Init /\ [][Next]_vars

-----------------------------------------------------------------------------
\* the verifiers, as the code must compute them
ProofOK(m) == m.tok = <<m.y, m.root, m.nul, m.x, m.e>>          \* a token is valid for its own statement only
AcceptRaw(m) == ProofOK(m)
AcceptStateful(m) == ProofOK(m) /\ m.x = m.sig /\ m.root = Root(leaves)
AcceptRoots(m, rs) == ProofOK(m) /\ m.x = m.sig /\ (rs = {} \/ m.root \in rs)

Member(w) == leaves[w.i] = RC(w.s, w.lim)

\* C01: an honest message of a current member (whose path is still the tree's) is accepted everywhere
Completeness ==
  \A m \in honest :
    (Member(m.wit) /\ m.root = Root(leaves)) =>
       AcceptRaw(m) /\ AcceptStateful(m) /\ AcceptRoots(m, {Root(leaves)}) /\ AcceptRoots(m, {})

\* C02 / RLN security: whatever the stateful verifier accepts is an untampered honest message whose
\* root is the current one, produced for a CURRENT member within its limit
Soundness ==
  \A m \in wire :
    AcceptStateful(m) =>
      /\ \E h \in honest : h.tok = m.tok /\ h.x = m.x /\ h.y = m.y /\ h.e = m.e /\ h.nul = m.nul /\ h.root = m.root /\ h.sig = m.sig
      /\ leaves[m.wit.i] = RC(m.wit.s, m.wit.lim)
      /\ m.wit.mid < m.wit.lim
RootSetSoundness ==
  \A m \in wire : \A rs \in SUBSET {Root(leaves), <<"other">>} :
    AcceptRoots(m, rs) => ProofOK(m) /\ m.x = m.sig /\ (rs # {} => m.root \in rs)

\* C03
Recover(m1, m2) ==
  IF m1.e # m2.e THEN "none"
  ELSE IF m1.x = m2.x THEN "error"
  ELSE LET a1 == (((m1.y - m2.y) % P) * Inv((m1.x - m2.x) % P)) % P IN (m1.y - m1.x * a1) % P
Shamir ==
  \A m1, m2 \in wire :
    (AcceptRaw(m1) /\ AcceptRaw(m2)) =>
      /\ (m1.wit.s = m2.wit.s /\ m1.wit.mid = m2.wit.mid /\ m1.e = m2.e) => m1.nul = m2.nul
      /\ (m1.nul = m2.nul /\ m1.x # m2.x) => Recover(m1, m2) = m1.wit.s /\ m1.wit.s = m2.wit.s
      /\ (m1.wit.s = m2.wit.s /\ (m1.e # m2.e \/ m1.wit.mid # m2.wit.mid)) => m1.nul # m2.nul
      /\ (m1.e # m2.e) => Recover(m1, m2) = "none"
      /\ (m1.x = m2.x /\ m1.e = m2.e) => Recover(m1, m2) = "error"

\* C12: nothing the prover put on the wire violates the circuit's relation
ProverHonest == \A m \in honest : Sat(m.wit.mid, m.wit.lim) /\ AcceptRaw(m)
=============================================================================
