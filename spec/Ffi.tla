-------------------------------- MODULE Ffi --------------------------------
(***************************************************************************)
(* The C surface as a second replica of the same abstract instance: every  *)
(* extern "C" function is a wrapper that forwards its arguments to the API *)
(* call of the same name and reports success as a flag.  Replica a is      *)
(* driven through the wrappers, replica b through the API; the sequential  *)
(* batch wrapper computes its start position from ITS OWN replica's leaf   *)
(* count.  TLC checks that the replicas never diverge and that a failed    *)
(* call leaves both unchanged (LockStep), over the tree alphabet.          *)
(***************************************************************************)
EXTENDS TreeOps

CONSTANTS Depth, Vals, MaxBatch
Cap == Pow2(Depth)
VARIABLES a, b, flag, lastok
vars == <<a, b, flag, lastok>>
Batches == UNION {[1..n -> Vals] : n \in 0..MaxBatch}
RemSets == {r \in SUBSET (0..Cap) : Cardinality(r) <= 2}

\* one call through both surfaces: the API result r (computed on b) and the wrapper's (computed on a)
Both(ra, rb) ==
  \E res \in rb.res :
    /\ res \in ra.res                      \* the wrapper reports what the API reports for the same request
    /\ a' = After(a, ra, res) /\ b' = After(b, rb, res)
    /\ flag' = (res = "ok") /\ lastok' = (res = "ok")

Set == \E i \in 0..Cap, v \in Vals : Both(SetF(Depth, a, i, v), SetF(Depth, b, i, v))
Delete == \E i \in 0..Cap : Both(DelF(Depth, a, i), DelF(Depth, b, i))
AppendLeaf == \E v \in Vals : Both(AppF(Depth, a, v), AppF(Depth, b, v))
Range == \E s \in 0..Cap, vs \in Batches : Both(RangeF(Depth, a, s, vs), RangeF(Depth, b, s, vs))
Batch == \E s \in 0..Cap, vs \in Batches, rem \in RemSets : Both(OvrF(Depth, a, s, vs, rem), OvrF(Depth, b, s, vs, rem))
\* seq_atomic_operation(leaves, rem) == atomic_operation(leaves_set(), leaves, rem)
SeqBatch == \E vs \in Batches, rem \in RemSets : Both(OvrF(Depth, a, a.next, vs, rem), OvrF(Depth, b, b.next, vs, rem))
InitLeaves == \E vs \in Batches : Both(InitF(Depth, a, vs), InitF(Depth, b, vs))

Init == a = Empty /\ b = Empty /\ flag = TRUE /\ lastok = TRUE
Next == Set \/ Delete \/ AppendLeaf \/ Range \/ Batch \/ SeqBatch \/ InitLeaves
Spec == Init /\ [][Next]_vars

LockStep == a = b /\ flag = lastok
FailedUnchanged == [][~flag' => (a' = a /\ b' = b)]_vars
=============================================================================
