SPECIFICATION Spec
CONSTANTS
  Depth = 2
  Vals = {0, 1, 2}
  MaxBatch = 2
  MaxRem = 2
  Variant = "none"
INVARIANTS Consistent MarkOK ResultOK
CHECK_DEADLOCK FALSE
