SPECIFICATION FairSpec
CONSTANTS
  Members = {1, 2}
  Limit = 1
  Epochs = {1, 2}
  Sigs = {1, 2}
  Mids = {0, 1}
  Window = 2
  MaxNet = 3
  MaxTreeOps = 3
  HistLen = 0
INVARIANTS TypeOK RateLimit HonestSafe SlashedOut RelayedWasMember NonMemberNeverRelayed OnePerSlot
PROPERTIES SpamLeadsToSlash
CHECK_DEADLOCK FALSE
