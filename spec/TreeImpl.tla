------------------------------ MODULE TreeImpl ------------------------------
(***************************************************************************)
(* The two in-memory backends at the level of their stored nodes,          *)
(* transcribed from the code (after the repairs of this project):          *)
(*                                                                         *)
(*  full    : utils/src/merkle_tree/full_merkle_tree.rs - a dense array of *)
(*            2^(d+1)-1 nodes in breadth-first order (root at 0, leaves at *)
(*            cap-1 ..), `set_range` writes the leaves and `update_nodes`  *)
(*            recomputes the parents of the touched index interval level   *)
(*            by level (parent(i) = ((i+1) >> 1) - 1);                     *)
(*  optimal : utils/src/merkle_tree/optimal_merkle_tree.rs - a sparse map  *)
(*            (level, index) -> hash with the default subtree hashes for   *)
(*            absent entries; `update_hashes(index, length)` recomputes    *)
(*            first..last = (index >> k)..((index+length-1) >> k) at every *)
(*            level.                                                       *)
(*                                                                         *)
(* Both run next to the ideal tree of TreeOps (the abstract state is       *)
(* carried along and updated by TreeOps' functions), and TLC checks the    *)
(* refinement mapping in every reachable state:                            *)
(*    Consistent : every stored node is the ideal node (free hash          *)
(*                 constructor: this means "is the hash of its children")  *)
(*    MarkOK     : next_index and the written-flags are the ideal ones     *)
(*    ResultOK   : the reported result is one TreeOps allows               *)
(* Faulty variants of the re-hash pass (the ones found in this project or  *)
(* seeded into it) are kept as named switches so that TLC demonstrates the *)
(* counterexample: Variant = "stale-right-half" is the defect repaired by  *)
(* fix 108de92, "first-plus-count" is seeded change C07-m3.                *)
(***************************************************************************)
EXTENDS TreeOps

CONSTANTS Depth, Vals, MaxBatch, MaxRem, Variant
Cap == Pow2(Depth)
Pos == 0..(Cap - 1)

VARIABLES ideal,      \* TreeOps state
          fnodes,     \* full: [0..2*Cap-2 -> node]
          fnext, fflags,
          onodes,     \* optimal: function on a subset of (level, index) pairs
          onext, oflags,
          lastres     \* results reported by <<full, optimal>> for the last call, with the allowed set
vars == <<ideal, fnodes, fnext, fflags, onodes, onext, oflags, lastres>>

H(a, b) == <<"H", a, b>>
Leaf(v) == <<"L", v>>

\* ---------------------------------------------------------------- full backend
Parent(i) == ((i + 1) \div 2) - 1
FirstChild(i) == 2 * i + 1
RECURSIVE FUpdate(_, _, _)
\* update_nodes(start, end): recompute the parents of start..end, then recurse on them
FUpdate(n, s, e) ==
  IF s = 0 THEN n
  ELSE LET ps == Parent(s)
           pe == Parent(e)
           n2 == [i \in DOMAIN n |-> IF i >= ps /\ i <= pe THEN H(n[FirstChild(i)], n[FirstChild(i) + 1]) ELSE n[i]]
       IN FUpdate(n2, ps, pe)
FSetRange(n, nx, fl, st, vs) ==                 \* returns [res, n, nx, fl]
  LET k == Len(vs) IN
  IF k + st > Cap THEN [res |-> "err", n |-> n, nx |-> nx, fl |-> fl]
  ELSE IF k = 0 THEN [res |-> "ok", n |-> n, nx |-> nx, fl |-> fl]
  ELSE LET idx == Cap + st - 1
           n1 == [i \in DOMAIN n |-> IF i >= idx /\ i < idx + k THEN Leaf(vs[i - idx + 1]) ELSE n[i]]
       IN [res |-> "ok", n |-> FUpdate(n1, idx, idx + k - 1), nx |-> Max(nx, st + k), fl |-> fl \cup Rng(st, k)]
FSet(n, nx, fl, i, v) ==
  IF i >= Cap THEN [res |-> "err", n |-> n, nx |-> nx, fl |-> fl]
  ELSE LET r == FSetRange(n, nx, fl, i, <<v>>) IN [r EXCEPT !.nx = Max(r.nx, i + 1)]
FDelete(n, nx, fl, i) ==
  IF i < nx THEN LET r == FSet(n, nx, fl, i, Z) IN [r EXCEPT !.fl = r.fl \ {i}]
  ELSE [res |-> "ok", n |-> n, nx |-> nx, fl |-> fl]
RECURSIVE FDeleteAll(_, _, _, _)
FDeleteAll(n, nx, fl, rem) ==                   \* `for i in indices { self.delete(i)? }` (sequence)
  IF rem = <<>> THEN [res |-> "ok", n |-> n, nx |-> nx, fl |-> fl]
  ELSE LET r == FDelete(n, nx, fl, Head(rem)) IN FDeleteAll(r.n, r.nx, r.fl, Tail(rem))
FOverride(n, nx, fl, st, vs, rem) ==
  IF vs = <<>> /\ rem = <<>> THEN [res |-> "err", n |-> n, nx |-> nx, fl |-> fl]
  ELSE IF st + Len(vs) > Cap \/ \E k \in 1..Len(rem) : rem[k] >= Cap THEN [res |-> "err", n |-> n, nx |-> nx, fl |-> fl]
  ELSE LET r == FDeleteAll(n, nx, fl, rem) IN FSetRange(r.n, r.nx, r.fl, st, vs)

\* ---------------------------------------------------------------- optimal backend
OGet(n, l, i) == IF <<l, i>> \in DOMAIN n THEN n[<<l, i>>] ELSE ZNode(Depth, l)
OPut(n, l, i, v) == [k \in DOMAIN n \cup {<<l, i>>} |-> IF k = <<l, i>> THEN v ELSE n[k]]
OHashCouple(n, l, i) == LET b == i - (i % 2) IN H(OGet(n, l, b), OGet(n, l, b + 1))
RECURSIVE OLevel(_, _, _, _)
OLevel(n, l, p, last) ==                        \* for parent_index in p..=last at level l (children at l)
  IF p > last THEN n ELSE OLevel(OPut(n, l - 1, p, OHashCouple(n, l, 2 * p)), l, p + 1, last)
RECURSIVE OUp(_, _, _, _)
OUp(n, l, first, last) ==                       \* update_hashes, walking from level l (children) to the root
  IF l = 0 THEN n
  ELSE LET f == first \div 2
           la == IF Variant = "stale-right-half" THEN first \div 2         \* the repaired defect: only the first parent
                 ELSE last \div 2
       IN OUp(OLevel(n, l, f, la), l - 1, f, la)
RECURSIVE OUpCount(_, _, _, _)
OUpCount(n, l, first, count) ==                 \* seeded C07-m3: first index + count, halved (rounded up) per level
  IF l = 0 THEN n
  ELSE LET f == first \div 2
           c == (count + 1) \div 2
       IN OUpCount(OLevel(n, l, f, f + c - 1), l - 1, f, c)
OUpdateHashes(n, index, length) ==
  IF length = 0 THEN n
  ELSE IF Variant = "first-plus-count" THEN OUpCount(n, Depth, index, length)
  ELSE OUp(n, Depth, index, index + length - 1)
RECURSIVE OWrite(_, _, _, _)
OWrite(n, st, vs, k) == IF k > Len(vs) THEN n ELSE OWrite(OPut(n, Depth, st + k - 1, Leaf(vs[k])), st, vs, k + 1)
OSetRange(n, nx, fl, st, vs) ==
  LET k == Len(vs) IN
  IF st + k > Cap THEN [res |-> "err", n |-> n, nx |-> nx, fl |-> fl]
  ELSE IF k = 0 THEN [res |-> "ok", n |-> n, nx |-> nx, fl |-> fl]
  ELSE [res |-> "ok", n |-> OUpdateHashes(OWrite(n, st, vs, 1), st, k), nx |-> Max(nx, st + k), fl |-> fl \cup Rng(st, k)]
OSet(n, nx, fl, i, v) ==
  IF i >= Cap THEN [res |-> "err", n |-> n, nx |-> nx, fl |-> fl]
  ELSE [res |-> "ok", n |-> OUpdateHashes(OPut(n, Depth, i, Leaf(v)), i, 1), nx |-> Max(nx, i + 1), fl |-> fl \cup {i}]
ODelete(n, nx, fl, i) ==
  IF i < nx THEN LET r == OSet(n, nx, fl, i, Z) IN [r EXCEPT !.fl = r.fl \ {i}]
  ELSE [res |-> "ok", n |-> n, nx |-> nx, fl |-> fl]
RECURSIVE ODeleteAll(_, _, _, _)
ODeleteAll(n, nx, fl, rem) ==
  IF rem = <<>> THEN [res |-> "ok", n |-> n, nx |-> nx, fl |-> fl]
  ELSE LET r == ODelete(n, nx, fl, Head(rem)) IN ODeleteAll(r.n, r.nx, r.fl, Tail(rem))
OOverride(n, nx, fl, st, vs, rem) ==
  IF vs = <<>> /\ rem = <<>> THEN [res |-> "err", n |-> n, nx |-> nx, fl |-> fl]
  ELSE IF st + Len(vs) > Cap \/ \E k \in 1..Len(rem) : rem[k] >= Cap THEN [res |-> "err", n |-> n, nx |-> nx, fl |-> fl]
  ELSE LET r == ODeleteAll(n, nx, fl, rem) IN OSetRange(r.n, r.nx, r.fl, st, vs)

\* ---------------------------------------------------------------- the machine
FInitNodes == [i \in 0..(2 * Cap - 2) |->
                 LET lev == CHOOSE l \in 0..Depth : Pow2(l) - 1 <= i /\ i < Pow2(l + 1) - 1 IN ZNode(Depth, lev)]
Init ==
  /\ ideal = Empty
  /\ fnodes = FInitNodes /\ fnext = 0 /\ fflags = {}
  /\ onodes = << >> /\ onext = 0 /\ oflags = {}
  /\ lastres = <<"ok", "ok", {"ok"}>>

Apply(spec, f, o) ==
  /\ ideal' = After(ideal, spec, f.res)            \* (where TreeOps allows both results the ideal tree follows the report)
  /\ fnodes' = f.n /\ fnext' = f.nx /\ fflags' = f.fl
  /\ onodes' = o.n /\ onext' = o.nx /\ oflags' = o.fl
  /\ lastres' = <<f.res, o.res, spec.res>>

Seqs(S, n) == UNION {[1..k -> S] : k \in 0..n}
Set == \E i \in 0..Cap, v \in Vals :
         Apply(SetF(Depth, ideal, i, v), FSet(fnodes, fnext, fflags, i, v), OSet(onodes, onext, oflags, i, v))
Delete == \E i \in 0..Cap :
         Apply(DelF(Depth, ideal, i), FDelete(fnodes, fnext, fflags, i), ODelete(onodes, onext, oflags, i))
AppendLeaf == \E v \in Vals :
         Apply(AppF(Depth, ideal, v), FSet(fnodes, fnext, fflags, fnext, v), OSet(onodes, onext, oflags, onext, v))
Range == \E st \in 0..Cap, vs \in Seqs(Vals, MaxBatch) :
         Apply(RangeF(Depth, ideal, st, vs), FSetRange(fnodes, fnext, fflags, st, vs), OSetRange(onodes, onext, oflags, st, vs))
Override == \E st \in 0..Cap, vs \in Seqs(Vals, MaxBatch), rem \in Seqs(0..Cap, MaxRem) :
         Apply(OvrF(Depth, ideal, st, vs, SeqSet(rem)), FOverride(fnodes, fnext, fflags, st, vs, rem),
               OOverride(onodes, onext, oflags, st, vs, rem))
Next == Set \/ Delete \/ AppendLeaf \/ Range \/ Override
Spec == Init /\ [][Next]_vars

\* ---------------------------------------------------------------- refinement mapping
FLevel(i) == CHOOSE l \in 0..Depth : Pow2(l) - 1 <= i /\ i < Pow2(l + 1) - 1
FullConsistent == \A i \in DOMAIN fnodes : fnodes[i] = Node(Depth, ideal, FLevel(i), i - (Pow2(FLevel(i)) - 1))
OptConsistent == \A l \in 0..Depth : \A i \in 0..(Pow2(l) - 1) : OGet(onodes, l, i) = Node(Depth, ideal, l, i)
Consistent == FullConsistent /\ OptConsistent
MarkOK == /\ fnext = ideal.next /\ onext = ideal.next
          /\ {i \in fflags : i < fnext} = {i \in ideal.fl : i < ideal.next}
          /\ {i \in oflags : i < onext} = {i \in ideal.fl : i < ideal.next}
ResultOK == lastres[1] \in lastres[3] /\ lastres[2] \in lastres[3]
=============================================================================
