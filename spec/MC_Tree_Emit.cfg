SPECIFICATION Spec
CONSTANTS
  Depth = 2
  Vals = {1, 2}
  MaxBatch = 2
  MaxRem = 5
  Ops = {"set", "delete", "append", "range", "override", "init"}
  Emit = TRUE
  HistLen = 0
INVARIANTS TypeOK
CHECK_DEADLOCK FALSE
