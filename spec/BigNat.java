// Optional accelerator for the BigNat TLA+ module (TLC module override): Mul via java.math.BigInteger.
// The TLA+ definition in BigNat.tla remains the semantics; the driver cross-checks this override against
// the pure definition on a sample of every run (see lib/common.py bignat_selfcheck).
import tlc2.value.impl.*;
import java.math.BigInteger;

public class BigNat {
    private static BigInteger toBig(Value v) {
        TupleValue t = (TupleValue) v.toTuple();
        byte[] be = new byte[t.elems.length + 1];
        for (int i = 0; i < t.elems.length; i++) {
            be[be.length - 1 - i] = (byte) ((IntValue) t.elems[i]).val;
        }
        return new BigInteger(be);
    }
    private static Value fromBig(BigInteger b) {
        byte[] be = b.toByteArray();
        int start = 0;
        while (start < be.length && be[start] == 0) start++;
        Value[] el = new Value[be.length - start];
        for (int i = 0; i < el.length; i++) {
            el[i] = IntValue.gen(be[be.length - 1 - i] & 0xff);
        }
        return new TupleValue(el);
    }
    public static Value Mul(Value a, Value b) {
        return fromBig(toBig(a).multiply(toBig(b)));
    }
}
