------------------------------- MODULE TreePm -------------------------------
(***************************************************************************)
(* The persistent backend at the level of its stored nodes: the external   *)
(* crate vacp2p_pmtree 2.0.2 (src/tree.rs) and the adapter                 *)
(* rln/src/pm_tree_adapter.rs on top of it, transcribed from the code.     *)
(* (TreeImpl.tla does the same for the two in-memory backends; Storage.tla *)
(* covers this backend's *writes* with faults and crashes - here the       *)
(* store is reliable and the question is whether the node algorithms are   *)
(* right.)                                                                 *)
(*                                                                         *)
(*  db      : key -> value.  A node (level, index) is stored under the     *)
(*            Cantor number ((l+i)(l+i+1))/2 + i; two reserved keys hold   *)
(*            the depth and next_index.  `new` writes only the nodes       *)
(*            (l, 0); an absent node reads as the default subtree hash of  *)
(*            its level (`cache[l]`).                                      *)
(*  memory  : next_index, root (kept next to the db; `load` re-reads them) *)
(*  set     : write the leaf, recalculate_from(key) = re-hash the couple   *)
(*            on the way up, one put per level; then next_index            *)
(*  delete  : rejected at or above next_index, else set(default)           *)
(*  batch_insert(start, leaves) : fill_nodes copies the nodes along the    *)
(*            paths into a scratch map `subtree` (relative coordinates:    *)
(*            the right recursion restarts at 0, leaves below `from` are   *)
(*            skipped at the bottom), batch_recalculate re-hashes every    *)
(*            node whose left child is in the map, put_batch stores the    *)
(*            map, then next_index and the root field                      *)
(*  adapter : a flag per position (`cached_leaves_indices`), set by set /  *)
(*            set_range / update_next, cleared by delete; an empty range   *)
(*            write is a no-op; override_range dispatches on the sizes     *)
(*            (1,0) set  (0,1) delete  (n,0) set_range; the two remaining  *)
(*            cases (removals in a batch) are the recorded known finding   *)
(*            pm-override-batch - they are kept OUT of the default Next    *)
(*            and are enabled by Variant = "kf-override", under which TLC  *)
(*            must refute the refinement (that is the finding).            *)
(*                                                                         *)
(* The ideal tree of TreeOps runs alongside; TLC checks in every reachable *)
(* state: Consistent (every node read through get_elem, the root field and *)
(* the stored root are the ideal ones), MarkOK (next_index in memory and   *)
(* in the db, flags), ProofOK (proof(i) is the ideal proof and folds to    *)
(* the root), ResultOK, KeysInjective, and that a Reload (drop + load) is  *)
(* invisible (LoadedEqualsLive).  Faulty variants that must be refuted:    *)
(* "pairing-without-index" (keys collide), "root-inside-if" (the root      *)
(* field assigned only when the batch grows the tree), "recalc-left-only"  *)
(* (batch_recalculate trusts the stored right child).                      *)
(***************************************************************************)
EXTENDS TreePmOps

VARIABLES ideal, db, pnext, proot, flags, lastres
vars == <<ideal, db, pnext, proot, flags, lastres>>

\* ---- the machine (adapter level)
Init == /\ ideal = Empty /\ db = NewDb /\ pnext = 0 /\ proot = Cache(0) /\ flags = {} /\ lastres = <<"ok", {"ok"}>>
Apply(spec, r, fl) ==
  /\ ideal' = After(ideal, spec, r.res)
  /\ db' = r.db /\ pnext' = r.nx /\ proot' = r.rt
  /\ flags' = IF r.res = "ok" THEN fl ELSE flags
  /\ lastres' = <<r.res, spec.res>>
Seqs(S, n) == UNION {[1..k -> S] : k \in 0..n}
SetA(i, v) == Apply(SetF(Depth, ideal, i, v), PSet(db, pnext, proot, i, v), flags \cup {i})
DeleteA(i) == Apply(DelF(Depth, ideal, i), PDelete(db, pnext, proot, i), flags \ {i})
AppendA(v) == Apply(AppF(Depth, ideal, v), PSet(db, pnext, proot, pnext, v), flags \cup {pnext})
RangeA(st, vs) ==
  IF vs = <<>> THEN Apply(RangeF(Depth, ideal, st, vs), R4("ok", db, pnext, proot), flags)      \* the adapter returns before the crate is called
  ELSE Apply(RangeF(Depth, ideal, st, vs), PBatch(db, pnext, proot, st, vs), flags \cup Rng(st, Len(vs)))
Set == \E i \in 0..Cap, v \in Vals : SetA(i, v)
Delete == \E i \in 0..Cap : DeleteA(i)
AppendLeaf == \E v \in Vals : AppendA(v)
Range == \E st \in 0..Cap, vs \in Seqs(Vals, MaxBatch) : RangeA(st, vs)
\* override_range through the dispatch cases that do not involve a batch with removals
Override == \E st \in 0..Cap, vs \in Seqs(Vals, MaxBatch), rem \in Seqs(0..Cap, 1) :
   /\ ~(Len(vs) = 0 /\ Len(rem) = 0) /\ (Len(rem) = 0 \/ Len(vs) = 0)
   /\ LET spec == OvrF(Depth, ideal, st, vs, SeqSet(rem)) IN
      CASE Len(vs) = 1 /\ rem = <<>> -> Apply(spec, PSet(db, pnext, proot, st, vs[1]), flags \cup {st})
        [] Len(vs) = 0 -> Apply(spec, PDelete(db, pnext, proot, rem[1]), flags \ {rem[1]})
        [] OTHER -> Apply(spec, PBatch(db, pnext, proot, st, vs), flags \cup Rng(st, Len(vs)))
\* the known finding: removals in a batch are written as one range starting at `start` (not at the lowest index)
KFOverride == /\ Variant = "kf-override"
              /\ \E st \in 0..(Cap - 1), v \in Vals, r \in 0..(Cap - 1) :
                   /\ r < st /\ st + (st + 1 - r) <= Cap
                   /\ LET set_values == [k \in 1..(st + 1 - r) |-> IF k = st - r + 1 THEN v
                                                                  ELSE IF r + k - 1 = r THEN Z ELSE Lf(ideal, r + k - 1)]
                      IN Apply(OvrF(Depth, ideal, st, <<v>>, {r}), PBatch(db, pnext, proot, st, set_values), (flags \ {r}) \cup {st})
\* drop the instance and load it again from the store
Reload == /\ pnext' = db[KNext] /\ proot' = GetElem(db, 0, 0) /\ UNCHANGED <<ideal, db, flags, lastres>>
Next == Set \/ Delete \/ AppendLeaf \/ Range \/ Override \/ KFOverride \/ Reload
Spec == Init /\ [][Next]_vars

\* ---- refinement mapping
Consistent == /\ \A l \in 0..Depth : \A i \in 0..(Pow2(l) - 1) : GetElem(db, l, i) = Node(Depth, ideal, l, i)
              /\ proot = Root(Depth, ideal)
MarkOK == /\ pnext = ideal.next /\ db[KNext] = ideal.next /\ db[KDepth] = Depth
          /\ {i \in flags : i < pnext} = {i \in ideal.fl : i < ideal.next}
ProofOK == \A i \in 0..(Cap - 1) : /\ PProof(db, i) = Proof(Depth, ideal, i)
                                   /\ Fold(Leaf(Lf(ideal, i)), PProof(db, i), 1) = proot
                                   /\ Index(PProof(db, i), 1) = i
ResultOK == lastres[1] \in lastres[2]
KeysInjective == \A l1, l2 \in 0..Depth : \A i1 \in 0..(Pow2(l1) - 1), i2 \in 0..(Pow2(l2) - 1) :
                   Key(l1, i1) = Key(l2, i2) => l1 = l2 /\ i1 = i2
\* The write set of a batch (what put_batch stores): every entry is either a node on the path of a written position, holding
\* the ideal value after the write, or a copy of the value the store already reads there (the siblings fill_nodes carried along,
\* the untouched leaves below `from`).  This is the abstraction Storage.tla's RangePlan makes (it lists the path nodes only):
\* the extra entries of the real batch rewrite what is there, so faults and crashes see the same alternatives.
BatchWriteSetOK ==
  \A s \in 0..(Cap - 1) : \A vs \in Seqs(Vals, MaxBatch) :
    (vs # <<>> /\ s + Len(vs) <= Cap) =>
      LET sub == Fill(DPut(<< >>, <<0, 0>>, proot), db, 0, 0, s, s + Len(vs), vs, s)
          rc == BRecalc(sub, 0, 0)[2]
          post == RangeF(Depth, ideal, s, vs).st
          OnPath(k) == \E p \in Rng(s, Len(vs)) : Anc(Depth, p, k[1]) = k[2]
      IN /\ \A k \in DOMAIN rc : IF OnPath(k) THEN rc[k] = Node(Depth, post, k[1], k[2])
                                    ELSE rc[k] = GetElem(db, k[1], k[2])
         /\ \A l \in 0..Depth : \A i \in 0..(Pow2(l) - 1) : OnPath(<<l, i>>) => <<l, i>> \in DOMAIN rc
LoadedEqualsLive == pnext = db[KNext] /\ proot = GetElem(db, 0, 0)
=============================================================================
