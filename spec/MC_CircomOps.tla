---------------------------- MODULE MC_CircomOps ----------------------------
(* exhaustive sanity of CircomOps for a one-byte prime: every operator, every operand pair *)
EXTENDS CircomOps, FiniteSets
F == 0..(ToInt(P) - 1)
N(x) == FromInt(x)
PI == ToInt(P)
Ops == {"Add", "Sub", "Eq", "Neq", "Lt", "Gt", "Leq", "Geq", "Land", "Lor", "Band", "Bor", "Bxor", "Shr", "Shl"}
Canonical == \A op \in Ops, a \in F, b \in F : Lt(Fn(op, N(a), N(b)), P)
AddSub == \A a \in F, b \in F : Eq(Fn("Sub", Fn("Add", N(a), N(b)), N(b)), N(a))
Ints == /\ \A a \in F, b \in F : ToInt(Fn("Add", N(a), N(b))) = (a + b) % PI
        /\ \A a \in F, b \in F : ToInt(Fn("Sub", N(a), N(b))) = (a - b) % PI
Signed(a) == IF a > PI \div 2 THEN a - PI ELSE a
Order == \A a \in F, b \in F :
           /\ (Fn("Lt", N(a), N(b)) = One) = (Signed(a) < Signed(b))
           /\ (Fn("Geq", N(a), N(b)) = One) = (Signed(a) >= Signed(b))
           /\ (Fn("Gt", N(a), N(b)) = One) = (Signed(a) > Signed(b))
           /\ (Fn("Leq", N(a), N(b)) = One) = (Signed(a) <= Signed(b))
Shifts == \A a \in F, k \in F :
           /\ (k <= PI \div 2 /\ k < NB) => ToInt(Fn("Shr", N(a), N(k))) = a \div (2 ^ k)
           /\ (k <= PI \div 2 /\ k < NB) => ToInt(Fn("Shl", N(a), N(k))) = ((a * 2 ^ k) % (2 ^ NB)) % PI
           /\ (k <= PI \div 2 /\ k >= NB) => IsZero(Fn("Shr", N(a), N(k))) /\ IsZero(Fn("Shl", N(a), N(k)))
           /\ (k > PI \div 2) => /\ Eq(Fn("Shr", N(a), N(k)), Fn("Shl", N(a), N(PI - k)))
                                /\ Eq(Fn("Shl", N(a), N(k)), Fn("Shr", N(a), N(PI - k)))
DeMorgan == \A a \in F, b \in F : Eq(Fn("Bxor", N(a), N(b)), Fn("Bxor", N(b), N(a)))
RelForms == \A a \in F, b \in F :
           /\ Rel("Mul", N(a), N(b), N((a * b) % PI), N((a * b) \div PI))
           /\ (b # 0 => Rel("Idiv", N(a), N(b), N(a \div b), Zero) /\ Rel("Mod", N(a), N(b), N(a % b), N(a \div b)))
           /\ Rel("Idiv", N(a), Zero, Zero, Zero) /\ Rel("Mod", N(a), Zero, Zero, Zero) /\ Rel("Div", N(a), Zero, Zero, Zero)
           /\ \A c \in F : (c # (a * b) % PI) => ~(Lt(N(c), P) /\ \E q \in 0..PI : Rel("Mul", N(a), N(b), N(c), N(q)))
ASSUME Canonical /\ AddSub /\ Ints /\ Order /\ Shifts /\ DeMorgan /\ RelForms
ASSUME PrintT(<<"CIRCOMOPS-MC", PI, Cardinality(Ops) * PI * PI>>)
P13 == <<13>>
P251 == <<251>>
VARIABLE dummy
Init == dummy = 0
Next == UNCHANGED dummy
=============================================================================
