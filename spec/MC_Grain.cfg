SPECIFICATION Spec
INVARIANTS TypeOK Conforms Complete SeedsOK
CHECK_DEADLOCK FALSE
