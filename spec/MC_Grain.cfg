SPECIFICATION Spec
INVARIANTS TypeOK ParamsOK Conforms Complete SeedsOK
CHECK_DEADLOCK FALSE
