----------------------------- MODULE Trace_Ffi -----------------------------
(***************************************************************************)
(* Judge for C11: each line holds one call made through the extern "C"     *)
(* surface on instance A and through the Rust API on instance B, with the  *)
(* observable state of both afterwards (Ffi.tla's two replicas).           *)
(*   flag_A = (B returned Ok); the output buffer designates exactly B's    *)
(*   bytes (equal bytes for deterministic calls; same length for proofs    *)
(*   and unseeded keys, whose cross-acceptance is a scenario step); the    *)
(*   verdict cells agree and stay untouched on failure; obs(A) = obs(B);   *)
(*   a failed call changes nothing; the process never aborts.              *)
(* Calls on which the Rust API itself panics are outside the quantifier.   *)
(***************************************************************************)
EXTENDS Integers, Sequences, TLC, Json, IOUtils

Rec == ndJsonDeserialize(IOEnv.TRACE)
VARIABLES l
More == l <= Len(Rec)
Has(r, f) == f \in DOMAIN r
Opt(r, f) == IF Has(r, f) THEN <<r[f]>> ELSE <<>>
Randomised == {"prove_tree", "prove_witness", "prove_raw", "key_gen", "ext_key_gen"}

SameObsBefore(e) ==       \* a failed call leaves the context as the previous line left it
  (l > 1 /\ Rec[l - 1].t = "ffi" /\ Has(Rec[l - 1], "obs_ffi")) =>
     LET p == Rec[l - 1].obs_ffi
         c == e.obs_ffi
     IN /\ p.root = c.root /\ p.next = c.next /\ p.meta = c.meta
        /\ \A k \in 1..Len(p.leaves) : \E j \in 1..Len(c.leaves) : c.leaves[j] = p.leaves[k]   \* (more positions may be watched now)

LineOK(e) ==
  IF e.t = "reset" THEN e.ffi_ok = e.api_ok
  ELSE IF Has(e, "abort") THEN FALSE                      \* the API returned for this call, the C surface killed the process
  ELSE IF Has(e, "skipped") THEN TRUE
  ELSE /\ e.args_equal
       /\ e.ffi.ok = e.api.ok                             \* success flag = (API returned Ok)
       /\ e.ffi.readable                                  \* pointer/length designate readable memory
       /\ (e.api.ok =>
            IF e.op.c \in Randomised THEN Len(e.ffi.out) = Len(e.api.out)
            ELSE Opt(e.ffi, "out") = Opt(e.api, "out"))
       /\ Opt(e.ffi, "verdict") = Opt(e.api, "verdict")   \* boolean verdicts agree; untouched on failure
       /\ Opt(e.ffi, "num") = Opt(e.api, "num")
       /\ e.obs_ffi = e.obs_api                            \* the tree state evolves identically
       /\ (~e.api.ok => SameObsBefore(e))
       /\ (Has(e.op, "expect") /\ e.api.ok => Opt(e.ffi, "verdict") = <<e.op.expect>>)   \* cross-acceptance steps

Init == l = 1
Good == More /\ LineOK(Rec[l]) /\ l' = l + 1
Deviation == More /\ ~LineOK(Rec[l]) /\ PrintT(<<"DEV", l>>)
             /\ PrintT(<<"WHY", l, Rec[l].op, (IF Has(Rec[l], "abort") THEN "ABORT" ELSE <<Rec[l].api.ok, Rec[l].ffi.ok>>)>>) /\ l' = l + 1
Next == Good \/ Deviation
Spec == Init /\ [][Next]_l
Accepted == (TLCGet("stats").diameter - 1 = Len(Rec)) \/ (PrintT(<<"REJECT", TLCGet("stats").diameter>>) /\ FALSE)
=============================================================================
