SPECIFICATION CSpec
CONSTANTS
  Depth = 3
  Vals = {1, 2}
  MaxBatch = 3
  Variant = "none"
INVARIANTS Deterministic NoRacyRead PairsTogether
PROPERTY Termination
