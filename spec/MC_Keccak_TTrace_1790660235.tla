---- MODULE MC_Keccak_TTrace_1790660235 ----
EXTENDS MC_Keccak, Sequences, TLCExt, Toolbox, Naturals, TLC

_expression ==
    LET MC_Keccak_TEExpression == INSTANCE MC_Keccak_TEExpression
    IN MC_Keccak_TEExpression!expression
----

_trace ==
    LET MC_Keccak_TETrace == INSTANCE MC_Keccak_TETrace
    IN MC_Keccak_TETrace!trace
----

_inv ==
    ~(
        TLCGet("level") = Len(_TETrace)
        /\
        dummy = (1)
    )
----

_init ==
    /\ dummy = _TETrace[1].dummy
----

_next ==
    /\ \E i,j \in DOMAIN _TETrace:
        /\ \/ /\ j = i + 1
              /\ i = TLCGet("level")
        /\ dummy  = _TETrace[i].dummy
        /\ dummy' = _TETrace[j].dummy

\* Uncomment the ASSUME below to write the states of the error trace
\* to the given file in Json format. Note that you can pass any tuple
\* to `JsonSerialize`. For example, a sub-sequence of _TETrace.
    \* ASSUME
    \*     LET J == INSTANCE Json
    \*         IN J!JsonSerialize("MC_Keccak_TTrace_1790660235.json", _TETrace)

=============================================================================

 Note that you can extract this module `MC_Keccak_TEExpression`
  to a dedicated file to reuse `expression` (the module in the 
  dedicated `MC_Keccak_TEExpression.tla` file takes precedence 
  over the module `MC_Keccak_TEExpression` below).

---- MODULE MC_Keccak_TEExpression ----
EXTENDS MC_Keccak, Sequences, TLCExt, Toolbox, Naturals, TLC

expression == 
    [
        \* To hide variables of the `MC_Keccak` spec from the error trace,
        \* remove the variables below.  The trace will be written in the order
        \* of the fields of this record.
        dummy |-> dummy
        
        \* Put additional constant-, state-, and action-level expressions here:
        \* ,_stateNumber |-> _TEPosition
        \* ,_dummyUnchanged |-> dummy = dummy'
        
        \* Format the `dummy` variable as Json value.
        \* ,_dummyJson |->
        \*     LET J == INSTANCE Json
        \*     IN J!ToJson(dummy)
        
        \* Lastly, you may build expressions over arbitrary sets of states by
        \* leveraging the _TETrace operator.  For example, this is how to
        \* count the number of times a spec variable changed up to the current
        \* state in the trace.
        \* ,_dummyModCount |->
        \*     LET F[s \in DOMAIN _TETrace] ==
        \*         IF s = 1 THEN 0
        \*         ELSE IF _TETrace[s].dummy # _TETrace[s-1].dummy
        \*             THEN 1 + F[s-1] ELSE F[s-1]
        \*     IN F[_TEPosition - 1]
    ]

=============================================================================



Parsing and semantic processing can take forever if the trace below is long.
 In this case, it is advised to uncomment the module below to deserialize the
 trace from a generated binary file.

\*
\*---- MODULE MC_Keccak_TETrace ----
\*EXTENDS MC_Keccak, IOUtils, TLC
\*
\*trace == IODeserialize("MC_Keccak_TTrace_1790660235.bin", TRUE)
\*
\*=============================================================================
\*

---- MODULE MC_Keccak_TETrace ----
EXTENDS MC_Keccak, TLC

trace == 
    <<
    ([dummy |-> 0]),
    ([dummy |-> 1])
    >>
----


=============================================================================

---- CONFIG MC_Keccak_TTrace_1790660235 ----

INVARIANT
    _inv

CHECK_DEADLOCK
    \* CHECK_DEADLOCK off because of PROPERTY or INVARIANT above.
    FALSE

INIT
    _init

NEXT
    _next

CONSTANT
    _TETrace <- _trace

ALIAS
    _expression
=============================================================================
\* Generated on Tue Sep 29 05:37:17 UTC 2026