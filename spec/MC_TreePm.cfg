SPECIFICATION Spec
CONSTANTS
  Depth = 2
  Vals = {0, 1, 2}
  MaxBatch = 3
  Variant = "none"
INVARIANTS Consistent MarkOK ProofOK ResultOK KeysInjective LoadedEqualsLive BatchWriteSetOK
CHECK_DEADLOCK FALSE
