SPECIFICATION CSpec
CONSTANTS
  Depth = 2
  Vals = {1, 2}
  MaxBatch = 3
  Variant = "join-left-only"
INVARIANTS Deterministic NoRacyRead PairsTogether
