------------------------------ MODULE MC_Graph ------------------------------
(* small-prime checks of Graph.tla: the reference interpretation is deterministic (for every graph of <= 3 nodes over
   a 5-operator alphabet and every input, exactly one value vector satisfies NodeHolds for some advice), and input
   placement does not depend on the order in which the named vectors are supplied (all orders of 3 names) *)
EXTENDS Graph, FiniteSets
PI == ToInt(P)
F == 0..(PI - 1)
N(x) == FromInt(x)
OpsA == {"Add", "Mul", "Lt", "Shr", "Idiv"}
Node1 == [k : {"in"}, i : {0, 1}] \cup [k : {"const"}, v : {N(0), N(5), N(12)}]
NodeN(n) == Node1 \cup [k : {"op"}, op : OpsA, a : 0..(n - 2), b : 0..(n - 2)] \cup [k : {"uno"}, op : {"Neg"}, a : 0..(n - 2)]
CONSTANT MaxN
Graphs == {<<a>> : a \in Node1} \cup {<<a, b>> : a \in Node1, b \in NodeN(2)}
          \cup (IF MaxN >= 3 THEN {<<a, b, c>> : a \in Node1, b \in NodeN(2), c \in NodeN(3)} ELSE {})
Inputs == {<<N(1), N(x)>> : x \in {0, 3, 12}}
Sat(g, inp) == {vals \in [1..Len(g) -> {N(x) : x \in F}] :
                  \A n \in 1..Len(g) : \E q \in {N(x) : x \in 0..PI} : NodeHolds(g, vals, inp, [k \in 1..Len(g) |-> q], n)}
Deterministic == \A g \in Graphs, inp \in Inputs : Cardinality(Sat(g, inp)) = 1
Layout == [a |-> <<1, 2>>, b |-> <<3, 1>>, c |-> <<5, 2>>]
Named == [a |-> <<N(7), N(8)>>, b |-> <<N(9)>>, c |-> <<N(1), N(2)>>]
Buf0 == [k \in 1..8 |-> IF k = 1 THEN N(1) ELSE N(0)]
Orders == {<<x, y, z>> : x \in {"a", "b", "c"}, y \in {"a", "b", "c"}, z \in {"a", "b", "c"}}
Perms == {o \in Orders : o[1] # o[2] /\ o[2] # o[3] /\ o[1] # o[3]}
OrderIndependent == \A o1, o2 \in Perms : Populate(Buf0, Layout, Named, o1) = Populate(Buf0, Layout, Named, o2)
ASSUME Deterministic /\ OrderIndependent
ASSUME PrintT(<<"GRAPH-MC", PI, Cardinality(Graphs) * Cardinality(Inputs)>>)
P13 == <<13>>
VARIABLE dummy
Init == dummy = 0
Next == UNCHANGED dummy
=============================================================================
