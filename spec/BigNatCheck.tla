---------------------------- MODULE BigNatCheck ----------------------------
(* self-check of the optional Java override of BigNat!Mul against its TLA+ definition *)
EXTENDS BigNat, Json, IOUtils
Pairs == ndJsonDeserialize(IOEnv.PAIRS)
ASSUME \A k \in 1..Len(Pairs) : Mul(Pairs[k].a, Pairs[k].b) = MulPure(Pairs[k].a, Pairs[k].b)
ASSUME PrintT(<<"BIGNAT-SELFCHECK", Len(Pairs)>>)
VARIABLE dummy
Init == dummy = 0
Next == UNCHANGED dummy
=============================================================================
