------------------------------ MODULE Keccak ------------------------------
EXTENDS Integers, Sequences, TLC
W == 64
Lane == 0..W-1
ZeroLane == TLCEval([i \in Lane |-> 0])
X(a,b) == TLCEval([i \in Lane |-> (a[i] + b[i]) % 2])
Rot(a,n) == TLCEval([i \in Lane |-> a[(i - n) % W]])
AndNot(a,b) == TLCEval([i \in Lane |-> (1 - a[i]) * b[i]])   \* (~a) & b
Idx == 0..4
\* rho offsets r[x][y]
RHO == << <<0,36,3,41,18>>, <<1,44,10,45,2>>, <<62,6,43,15,61>>, <<28,55,25,21,56>>, <<27,20,39,8,14>> >>
RC == << <<0>>, <<1,7,15>>, <<1,3,7,15,63>>, <<15,31,63>>, <<0,1,3,7,15>>, <<0,31>>, <<0,7,15,31,63>>, <<0,3,15,63>>,
         <<1,3,7>>, <<3,7>>, <<0,3,15,31>>, <<1,3,31>>, <<0,1,3,7,15,31>>, <<0,1,3,7,63>>, <<0,3,7,15,63>>, <<0,1,15,63>>,
         <<1,15,63>>, <<7,63>>, <<1,3,15>>, <<1,3,31,63>>, <<0,7,15,31,63>>, <<7,15,63>>, <<0,31>>, <<3,15,31,63>> >>
InSeq(s, v) == \E k \in 1..Len(s) : s[k] = v
RcLane(r) == TLCEval([i \in Lane |-> IF InSeq(RC[r], i) THEN 1 ELSE 0])
Round(A, r) ==
  LET C == TLCEval([x \in Idx |-> X(X(X(X(A[x][0],A[x][1]),A[x][2]),A[x][3]),A[x][4])])
      Dd == TLCEval([x \in Idx |-> X(C[(x+4)%5], Rot(C[(x+1)%5],1))])
      T == TLCEval([x \in Idx |-> TLCEval([y \in Idx |-> X(A[x][y], Dd[x])])])
      B == TLCEval([x \in Idx |-> TLCEval([y \in Idx |->
              LET sx == (x + 3*y) % 5  sy == x IN Rot(T[sx][sy], RHO[sx+1][sy+1])])])
      E == TLCEval([x \in Idx |-> TLCEval([y \in Idx |-> X(B[x][y], AndNot(B[(x+1)%5][y], B[(x+2)%5][y]))])])
  IN TLCEval([x \in Idx |-> TLCEval([y \in Idx |-> IF x = 0 /\ y = 0 THEN X(E[0][0], RcLane(r)) ELSE E[x][y]])])
RECURSIVE F(_,_)
F(A, r) == IF r > 24 THEN A ELSE F(Round(A, r), r+1)
\* absorb bytes (seq of 0..255), rate 136 bytes = 17 lanes
Bit(b, k) == (b \div (2^k)) % 2
Pad(msg) == LET q == 136 - (Len(msg) % 136)
            IN IF q = 1 THEN Append(msg, 129)   \* 0x01 | 0x80
               ELSE msg \o <<1>> \o [k \in 1..(q-2) |-> 0] \o <<128>>
BlockLane(blk, j) == TLCEval([i \in Lane |-> Bit(blk[8*j + (i \div 8) + 1], i % 8)])  \* j = lane number 0..16
Absorb(A, blk) == TLCEval([x \in Idx |-> TLCEval([y \in Idx |-> IF x + 5*y < 17 THEN X(A[x][y], BlockLane(blk, x + 5*y)) ELSE A[x][y]])])
RECURSIVE Sponge(_,_)
Sponge(A, m) == IF Len(m) = 0 THEN A ELSE Sponge(F(Absorb(A, SubSeq(m,1,136)), 1), SubSeq(m,137,Len(m)))
LaneByte(a, k) == a[8*k] + 2*a[8*k+1] + 4*a[8*k+2] + 8*a[8*k+3] + 16*a[8*k+4] + 32*a[8*k+5] + 64*a[8*k+6] + 128*a[8*k+7]
Keccak256(msg) == LET A == TLCEval(Sponge([x \in Idx |-> [y \in Idx |-> ZeroLane]], Pad(msg)))
                  IN TLCEval([n \in 1..32 |-> LaneByte(A[((n-1) \div 8) % 5][((n-1) \div 8) \div 5], (n-1) % 8)])
=============================================================================
