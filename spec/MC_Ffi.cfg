SPECIFICATION Spec
CONSTANTS
  Depth = 2
  Vals = {0, 1, 2}
  MaxBatch = 2
INVARIANT LockStep
PROPERTY FailedUnchanged
CHECK_DEADLOCK FALSE
