SPECIFICATION Spec
CONSTANTS
  N = 3
  K = 2
  Calls = {"verify", "get_root"}
  MaxTries = 3
INVARIANTS Linearisable InitOnce NoEarlyResponse BoundedTries
PROPERTIES Termination OpenSucceedsWhenFree
CHECK_DEADLOCK FALSE
