----------------------------- MODULE BatchConc -----------------------------
(***************************************************************************)
(* The parallel part of a batch update of the persistent backend           *)
(* (vacp2p_pmtree, batch_recalculate): the scratch map `subtree`, filled   *)
(* by fill_nodes, sits behind an RwLock shared by the tasks of a           *)
(* rayon::join recursion - one task per node:                              *)
(*                                                                         *)
(*   task(key): if key is a leaf or subtree has no entry for its left      *)
(*                 child      [read lock 1: contains_key]                  *)
(*              then return subtree[key]        [read lock 2: get]         *)
(*              else join(task(left), task(right)); v = H(l, r);           *)
(*                   subtree[key] = v           [write lock]; return v     *)
(*                                                                         *)
(* Here every lock acquisition is one step and the two children of a join  *)
(* run in any order and interleaving (any number of worker threads; one    *)
(* worker = the sequential order).  TLC explores every schedule of every   *)
(* batch (start, leaves) on the chosen prior states and checks that the    *)
(* outcome is the one of the sequential definition BRecalc of TreePm.tla:  *)
(* same root value, same final map (Deterministic), no task ever reads an  *)
(* entry another task may still write (NoRacyRead), and every schedule     *)
(* terminates (Termination, under weak fairness of the steps).  This is    *)
(* the design-level half of C18's "roots after batch updates are           *)
(* bit-identical for every number of worker threads"; the code-level half  *)
(* is the pool-size experiment of the C18 check.                           *)
(***************************************************************************)
EXTENDS TreePmOps

VARIABLES sub,      \* the shared scratch map
          sub0,     \* as fill_nodes left it (history variable, for the comparison)
          st,       \* task state: key -> "check" | "read" | "wait" | "done"
          ret       \* returned values
cvars == <<sub, sub0, st, ret>>

RootK == <<0, 0>>
L(k) == <<k[1] + 1, 2 * k[2]>>
Rt(k) == <<k[1] + 1, 2 * k[2] + 1>>
MPut(f, k, v) == [x \in DOMAIN f \cup {k} |-> IF x = k THEN v ELSE f[x]]

\* prior states of the store: a fresh tree, and a tree after some writes (through the sequential model)
Prior == {[db |-> NewDb, rt |-> Cache(0)]} \cup
         {[db |-> r.db, rt |-> r.rt] : r \in {x \in {PBatch(NewDb, 0, Cache(0), s, vs) : s \in 0..(Cap - 1), vs \in {<<1>>, <<1, 2>>}} : x.res = "ok"}}

CInit == \E p \in Prior, s \in 0..(Cap - 1), vs \in (UNION {[1..n -> Vals] : n \in 1..MaxBatch}) :
           /\ s + Len(vs) <= Cap
           /\ sub0 = Fill(DPut(<< >>, RootK, p.rt), p.db, 0, 0, s, s + Len(vs), vs, s)
           /\ sub = sub0
           /\ st = (RootK :> "check") /\ ret = << >>

\* read lock 1: is this a leaf of the recursion?
Check(k) == /\ k \in DOMAIN st /\ st[k] = "check"
            /\ IF k[1] = Depth \/ L(k) \notin DOMAIN sub
               THEN st' = [st EXCEPT ![k] = "read"]
               ELSE st' = MPut(MPut([st EXCEPT ![k] = "wait"], L(k), "check"), Rt(k), "check")       \* rayon::join(left, right)
            /\ UNCHANGED <<sub, sub0, ret>>
\* read lock 2: the stored value
Read(k) == /\ k \in DOMAIN st /\ st[k] = "read"
           /\ ret' = MPut(ret, k, sub[k]) /\ st' = [st EXCEPT ![k] = "done"]
           /\ UNCHANGED <<sub, sub0>>
\* both children returned: hash, write lock, return
Join(k) == /\ k \in DOMAIN st /\ st[k] = "wait" /\ st[L(k)] = "done"
           /\ (Variant # "join-left-only" => st[Rt(k)] = "done")
           \* (faulty variant, must be refuted: the parent does not wait for its right child and takes what the map holds)
           /\ LET rv == IF st[Rt(k)] = "done" THEN ret[Rt(k)] ELSE sub[Rt(k)]
                  v == H(ret[L(k)], rv) IN
              /\ sub' = MPut(sub, k, v) /\ ret' = MPut(ret, k, v)
           /\ st' = [st EXCEPT ![k] = "done"]
           /\ UNCHANGED sub0
Keys == {k \in (0..Depth) \X (0..(Cap - 1)) : k[2] < Pow2(k[1])}
Finished == RootK \in DOMAIN st /\ st[RootK] = "done"
CNext == (\E k \in Keys : Check(k) \/ Read(k) \/ Join(k)) \/ (Finished /\ UNCHANGED cvars)
CSpec == CInit /\ [][CNext]_cvars /\ WF_cvars(\E k \in Keys : Check(k) \/ Read(k) \/ Join(k))

\* ---- properties
Seq0 == BRecalc(sub0, 0, 0)
Deterministic == Finished => ret[RootK] = Seq0[1] /\ sub = Seq0[2]
\* a task in state "read" reads an entry that no unfinished task will write (only task k writes subtree[k])
NoRacyRead == \A k \in DOMAIN st : st[k] = "read" => ~\E j \in DOMAIN st : j = k /\ st[j] = "wait"
\* the two children of a join are both present in the map whenever the left one is (fill_nodes inserts them in pairs)
PairsTogether == \A k \in Keys : k[1] < Depth /\ L(k) \in DOMAIN sub0 => Rt(k) \in DOMAIN sub0
Termination == <>Finished
=============================================================================
