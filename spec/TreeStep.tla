------------------------------ MODULE TreeStep ------------------------------
(***************************************************************************)
(* What one recorded call means (SpecStep: scenario vocabulary -> TreeOps) *)
(* and the transcription of the persistent adapter's batch update that the *)
(* known finding "pm-override-batch" refers to.  Shared by the judges      *)
(* Trace_Tree.tla (recorder traces) and Trace_Hook.tla (hook H2 traces).   *)
(***************************************************************************)
EXTENDS TreeOps

\* ---- the specification of one call ----
SpecStep(dd, s, op) ==
  CASE op.c = "set"      -> SetF(dd, s, op.i, op.v)
    [] op.c = "delete"   -> DelF(dd, s, op.i)
    [] op.c = "append"   -> AppF(dd, s, op.v)
    [] op.c = "range"    -> RangeF(dd, s, op.s, op.vs)
    [] op.c = "override" -> OvrF(dd, s, op.s, op.vs, SeqSet(op.rem))
    [] op.c = "init"     -> InitF(dd, s, op.vs)
    [] OTHER             -> R({"ok"}, s)          \* set_meta, compute_root: no effect on the tree


\* ---- rln::pm_tree_adapter::PmTree::override_range, transcribed (known finding pm-override-batch) ----
SortedRem(rem) == SortSeq(rem, LAMBDA a, b : a < b)
PmOutcome(res, lv, nx, fl) == [res |-> res, lv |-> lv, next |-> nx, fl |-> fl]
PmUnchanged(res, s) == PmOutcome(res, s.lv, s.next, s.fl)
PmWrite(lv, start, vals) ==       \* write the sequence vals at start..start+Len(vals)-1 (sparse, canonical)
  LET n == Len(vals)
      keep == {k \in DOMAIN lv : k \notin Rng(start, n)}
      wr == {k \in Rng(start, n) : vals[k - start + 1] # Z}
  IN [k \in keep \cup wr |-> IF k \in wr THEN vals[k - start + 1] ELSE lv[k]]
PmOverride(dd, s, op) ==
  LET cap == Pow2(dd)
      idx == SortedRem(op.rem)
      vs == op.vs
      n == Len(vs)
      m == Len(idx)
      start == op.s
  IN IF n = 0 /\ m >= 2 THEN
          \* remove_indices: the whole span first..last is reset, and counted as used
          LET st == idx[1]
              en == idx[m] + 1
          IN IF en > cap THEN PmUnchanged("err", s)
             ELSE PmOutcome("ok", PmWrite(s.lv, st, [k \in 1..(en - st) |-> Z]), Max(s.next, en), s.fl \ (st..(en - 1)))
     ELSE IF n >= 1 /\ m >= 1 THEN
          \* remove_indices_and_set_leaves
          LET minI == idx[1]
              maxI == start + n
          IN IF maxI < minI \/ start < minI THEN PmUnchanged("panic", s)         \* usize underflow
             ELSE LET len == maxI - minI
                      vals == [j \in 1..len |->
                                 LET v == minI + j - 1 IN
                                 IF v < start THEN (IF v \in SeqSet(idx) THEN Z ELSE Lf(s, v)) ELSE vs[v - start + 1]]
                  IN IF start + len > cap THEN PmUnchanged("err", s)
                     ELSE LET lv2 == PmWrite(s.lv, start, vals)
                              nx2 == Max(s.next, start + len)
                          IN IF \E i \in SeqSet(idx) : i >= cap
                             THEN \* index out of bounds on the flag vector, after the tree was written
                                  PmOutcome("panic", lv2, nx2, s.fl \ SeqSet(idx))
                             ELSE PmOutcome("ok", lv2, nx2, (s.fl \ SeqSet(idx)) \cup (start..(len - 1)))
     ELSE PmUnchanged("none", s)         \* other shapes are delegated to set / delete / set_range: not this finding

=============================================================================
