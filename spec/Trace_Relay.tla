---------------------------- MODULE Trace_Relay ----------------------------
(***************************************************************************)
(* Trace validation of recorded relay executions against Relay.tla.        *)
(* Every recorded API interaction is one action of Relay (reused, not      *)
(* re-stated), bound to the logged fields.  What the library returned is   *)
(* compared with what the design demands at that step:                     *)
(*   reg / wd : accepted; the root afterwards is a function of the tree    *)
(*              content and different contents have different roots        *)
(*              (also across instances);                                   *)
(*   pub      : a satisfiable request of a member yields a message whose   *)
(*              root is the tree's (C01); message id >= limit yields an    *)
(*              error (C12); nullifier = function of (member, epoch,       *)
(*              message id) and injective, share x = function of the       *)
(*              signal, y = function of both, external nullifier =         *)
(*              function of the epoch (C03/C04); whoever proves, the root  *)
(*              is that of the tree with the prover's leaf in place;       *)
(*   val      : verify_with_roots on the validator's window accepts        *)
(*              exactly when the design's Classify is not "invalid"        *)
(*              (C01/C02), and the class computed from the REAL nullifier  *)
(*              and share (log lookup) is the design's class;              *)
(*   slash    : recover_id_secret on the two shares returns exactly the    *)
(*              registered secret of that member (C03); removal succeeds.  *)
(* CTL.prop selects which of these clauses a deviation is charged to, so   *)
(* that each property's check reports only its own clause.                 *)
(* After a deviation the rest of that behaviour is consumed unjudged.      *)
(***************************************************************************)
EXTENDS Relay, IOUtils

Rec == ndJsonDeserialize(IOEnv.TRACE)
Ctl == JsonDeserialize(IOEnv.CTL)
Prop == Ctl.prop                \* "C01" | "C02" | "C03" | "C12" | "all"
Judged(p) == Prop = "all" \/ Prop = p

VARIABLES l, dead,
          rootOf, nulOf, xOf, yOf, eOf, sidOf,   \* design value -> interned real value (functions, kept across behaviours)
          pubs,                                  \* per message: the real values it carries
          rlog                                   \* the validator's real log: set of [nul, x]
tv == <<l, dead, rootOf, nulOf, xOf, yOf, eOf, sidOf, pubs, rlog>>
allvars == <<vars, tv>>

More == l <= Len(Rec)
Rng(f) == {f[k] : k \in DOMAIN f}
FnOK(f, k, v) == IF k \in DOMAIN f THEN f[k] = v ELSE v \notin Rng(f)     \* functional and injective
Ext(f, k, v) == IF k \in DOMAIN f THEN f ELSE [z \in DOMAIN f \cup {k} |-> IF z = k THEN v ELSE f[z]]
Ev == Rec[l]

ResetModel ==
  /\ members' = {} /\ window' = <<TreeRoot({})>> /\ net' = <<>> /\ verdict' = <<>> /\ log' = {} /\ slashed' = {}
  /\ everreg' = {} /\ treeops' = 0 /\ hist' = <<>>

-----------------------------------------------------------------------------
RegEn(m) == treeops < MaxTreeOps /\ m \notin members /\ m \notin slashed
RegCond(e) == /\ RegEn(e.m)
              /\ e.res = "ok"
              /\ FnOK(rootOf, TreeRoot(members \cup {e.m}), e.root)
              /\ FnOK(sidOf, e.m, e.sid)
RegStep(e) == /\ Register(e.m)
              /\ rootOf' = Ext(rootOf, TreeRoot(members \cup {e.m}), e.root)
              /\ sidOf' = Ext(sidOf, e.m, e.sid)
              /\ UNCHANGED <<nulOf, xOf, yOf, eOf, pubs, rlog>>

WdEn(m) == treeops < MaxTreeOps /\ m \in members
WdCond(e) == WdEn(e.m) /\ e.res = "ok" /\ FnOK(rootOf, TreeRoot(members \ {e.m}), e.root)
WdStep(e) == /\ Withdraw(e.m)
             /\ rootOf' = Ext(rootOf, TreeRoot(members \ {e.m}), e.root)
             /\ UNCHANGED <<nulOf, xOf, yOf, eOf, sidOf, pubs, rlog>>

\* --- publish
PKey(e) == <<e.m, e.e, e.mid>>
PubValuesOK(e) ==
  /\ FnOK(nulOf, PKey(e), e.nul)
  /\ FnOK(xOf, e.sig, e.x)
  /\ FnOK(yOf, <<PKey(e), e.sig>>, e.y)
  /\ FnOK(eOf, e.e, e.eid)
PubCond(e) ==
  IF ~CanProve(e.mid)
  THEN (Judged("C12") => e.res = "err")                            \* nothing may come out for message id >= limit
  ELSE /\ Len(net) < MaxNet
       /\ (e.m \in members /\ Judged("C01")) => e.res = "ok"                      \* a member's satisfiable request is served
       /\ e.res \in {"ok", "err"}                                                 \* (a non-member's: served or refused, no crash)
       /\ e.res = "ok" =>
            /\ (Judged("C01") \/ Judged("C02")) => FnOK(rootOf, ProvenRoot(e.m, members), e.root)
            /\ Judged("C03") => PubValuesOK(e)
PubStep(e) ==
  IF ~CanProve(e.mid)
  THEN UNCHANGED <<vars, rootOf, nulOf, xOf, yOf, eOf, sidOf, pubs, rlog>>
  ELSE /\ Publish(e.m, e.e, e.mid, e.sig)
       /\ pubs' = Append(pubs, [ok |-> e.res = "ok", nul |-> e.nul, x |-> e.x, member |-> e.m \in members])
       /\ IF e.res = "ok"
          THEN /\ nulOf' = Ext(nulOf, PKey(e), e.nul) /\ xOf' = Ext(xOf, e.sig, e.x)
               /\ yOf' = Ext(yOf, <<PKey(e), e.sig>>, e.y) /\ eOf' = Ext(eOf, e.e, e.eid)
               /\ rootOf' = Ext(rootOf, ProvenRoot(e.m, members), e.root)
          ELSE UNCHANGED <<nulOf, xOf, yOf, eOf, rootOf>>
       /\ UNCHANGED <<sidOf, rlog>>

\* --- validate
RealClass(e) ==
  LET p == pubs[e.i] IN
  IF e.res # "true" THEN "invalid"
  ELSE IF \E r \in rlog : r.nul = p.nul /\ r.x = p.x THEN "dup"
  ELSE IF \E r \in rlog : r.nul = p.nul THEN "spam"
  ELSE "valid"
WindowOK(e) == e.window = [k \in 1..Len(window) |-> rootOf[window[k]]]      \* the driver handed over the design's window
ValCond(e) ==
  /\ e.i \in DOMAIN net /\ verdict[e.i] = "none"
  /\ WindowOK(e)
  /\ e.res \in {"true", "false", "err", "nomsg"}                              \* never a crash
  /\ (e.res = "nomsg") <=> ~pubs[e.i].ok
  /\ pubs[e.i].ok =>
       LET c == Classify(e.i) IN
       /\ (c = "invalid" /\ Judged("C02")) => e.res # "true"                  \* a root outside the window is refused
       /\ (c # "invalid" /\ Judged("C01")) => e.res = "true"                  \* a member's message within the window is accepted
       /\ (Judged("C03") /\ e.res = "true" /\ c # "invalid") => RealClass(e) = c   \* the log lookup on real values agrees
ValStep(e) ==
  IF pubs[e.i].ok
  THEN /\ Validate(e.i)
       /\ rlog' = IF Classify(e.i) = "valid" THEN rlog \cup {[nul |-> pubs[e.i].nul, x |-> pubs[e.i].x]} ELSE rlog
       /\ UNCHANGED <<rootOf, nulOf, xOf, yOf, eOf, sidOf, pubs>>
  ELSE \* the prover (not a member at the time) was refused: nothing reached the wire, nothing is relayed or logged
       /\ verdict' = [verdict EXCEPT ![e.i] = "invalid"]
       /\ UNCHANGED <<members, window, net, log, slashed, everreg, treeops, hist>>
       /\ UNCHANGED <<rootOf, nulOf, xOf, yOf, eOf, sidOf, pubs, rlog>>

\* --- slash
SlashCond(e) ==
  /\ e.i \in DOMAIN net /\ verdict[e.i] = "spam" /\ net[e.i].m \notin slashed
  /\ e.j \in DOMAIN net /\ verdict[e.j] = "valid" /\ Key(net[e.j]) = Key(net[e.i])
  /\ Judged("C03") => (e.res = "ok" /\ e.secret = sidOf[net[e.i].m])          \* exactly the member's secret
  /\ e.res \in {"ok", "err"}
  /\ e.deleted = (net[e.i].m \in members)
  /\ e.deleted => (e.delres = "ok" /\ FnOK(rootOf, TreeRoot(members \ {net[e.i].m}), e.root))
SlashStep(e) ==
  /\ Slash(e.i)
  /\ rootOf' = IF e.deleted THEN Ext(rootOf, TreeRoot(members \ {net[e.i].m}), e.root) ELSE rootOf
  /\ UNCHANGED <<nulOf, xOf, yOf, eOf, sidOf, pubs, rlog>>

-----------------------------------------------------------------------------
Cond(e) == CASE e.t = "reg" -> RegCond(e) [] e.t = "wd" -> WdCond(e) [] e.t = "pub" -> PubCond(e)
             [] e.t = "val" -> ValCond(e) [] e.t = "slash" -> SlashCond(e) [] OTHER -> FALSE
Step(e) == CASE e.t = "reg" -> RegStep(e) [] e.t = "wd" -> WdStep(e) [] e.t = "pub" -> PubStep(e)
             [] e.t = "val" -> ValStep(e) [] e.t = "slash" -> SlashStep(e) [] OTHER -> FALSE

TInit == /\ Init /\ l = 1 /\ dead = FALSE
         /\ rootOf = << >> /\ nulOf = << >> /\ xOf = << >> /\ yOf = << >> /\ eOf = << >> /\ sidOf = << >>
         /\ pubs = <<>> /\ rlog = {}

Reset == /\ More /\ Ev.t = "reset"
         /\ IF Ev.res = "ok" /\ FnOK(rootOf, TreeRoot({}), Ev.root)
            THEN dead' = FALSE /\ rootOf' = Ext(rootOf, TreeRoot({}), Ev.root)
            ELSE PrintT(<<"DEV", l>>) /\ PrintT(<<"WHY", l, "instance creation / empty root", Ev>>) /\ dead' = TRUE /\ rootOf' = rootOf
         /\ ResetModel /\ pubs' = <<>> /\ rlog' = {} /\ l' = l + 1
         /\ UNCHANGED <<nulOf, xOf, yOf, eOf, sidOf>>
Good == /\ More /\ ~dead /\ Ev.t # "reset" /\ Cond(Ev)
        /\ Step(Ev) /\ l' = l + 1 /\ dead' = FALSE
Deviation == /\ More /\ ~dead /\ Ev.t # "reset" /\ ~Cond(Ev)
             /\ PrintT(<<"DEV", l>>)
             /\ PrintT(<<"WHY", l, Ev, "members", members, "window", window, "verdicts", verdict,
                         "class", IF Ev.t = "val" /\ Ev.i \in DOMAIN net THEN Classify(Ev.i) ELSE "-">>)
             /\ dead' = TRUE /\ l' = l + 1
             /\ UNCHANGED <<vars, rootOf, nulOf, xOf, yOf, eOf, sidOf, pubs, rlog>>
Skip == /\ More /\ dead /\ Ev.t # "reset"
        /\ l' = l + 1 /\ UNCHANGED <<vars, dead, rootOf, nulOf, xOf, yOf, eOf, sidOf, pubs, rlog>>
TNext == Reset \/ Good \/ Deviation \/ Skip
TSpec == TInit /\ [][TNext]_allvars
Accepted == (TLCGet("stats").diameter - 1 = Len(Rec)) \/ (PrintT(<<"REJECT", TLCGet("stats").diameter>>) /\ FALSE)
=============================================================================
