SPECIFICATION SSpec
POSTCONDITION Accepted
CHECK_DEADLOCK FALSE
