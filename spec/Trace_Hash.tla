----------------------------- MODULE Trace_Hash -----------------------------
(***************************************************************************)
(* Judge for C09.  Poseidon: the library's output must be the end of a     *)
(* correct run of Poseidon.tla on the same inputs (the run is supplied as  *)
(* a certificate and verified step by step).  Hash-to-field: the output    *)
(* must be Keccak.tla's Keccak-256 of the bytes, read little-endian,       *)
(* reduced modulo the field order (computed here).  Purity: the typed,     *)
(* byte-level and FFI entry points and every thread return the same bytes. *)
(***************************************************************************)
EXTENDS Json, IOUtils, Keccak
PBN == <<1, 0, 0, 240, 147, 245, 225, 67, 145, 112, 185, 121, 72, 232, 51, 40, 93, 88, 129, 129, 182, 69,
         80, 184, 41, 160, 49, 225, 114, 78, 100, 48>>
PoseidonTables == JsonDeserialize("poseidon_constants.json")      \* evaluated once (constant definition of the root module)
INSTANCE Poseidon WITH P <- PBN, K <- PoseidonTables

Rec == ndJsonDeserialize(IOEnv.TRACE)
VARIABLES l
More == l <= Len(Rec)

RECURSIVE RedN(_)
RedN(a) == IF Le(PBN, a) THEN RedN(Sub(a, PBN)) ELSE a          \* a < 2^256 < 6p: at most five subtractions
Pad32(b) == b \o [k \in 1..(32 - Len(b)) |-> 0]
Pure(e) ==
  /\ \A k \in 1..Len(e.threads) : e.threads[k] = e.out
  /\ Norm(e.bytes_api) = e.out /\ Len(e.bytes_api) = 32
  /\ Norm(e.bytes_ffi) = e.out /\ Len(e.bytes_ffi) = 32

LineOK(e) ==
  /\ e.res = "ok"
  /\ Lt(e.out, PBN)
  /\ Pure(e)
  /\ CASE e.t = "poseidon" -> HashIs(e.inp, e.cert.rounds, e.out)
       [] e.t = "keccak" -> Eq(e.out, RedN(Norm(Keccak256(e.msg))))

Init == l = 1
Good == More /\ LineOK(Rec[l]) /\ l' = l + 1
Deviation == More /\ ~LineOK(Rec[l]) /\ PrintT(<<"DEV", l>>) /\ PrintT(<<"WHY", l, Rec[l].t, Rec[l].res>>) /\ l' = l + 1
Next == Good \/ Deviation
Spec == Init /\ [][Next]_l
Accepted == (TLCGet("stats").diameter - 1 = Len(Rec)) \/ (PrintT(<<"REJECT", TLCGet("stats").diameter>>) /\ FALSE)
=============================================================================
