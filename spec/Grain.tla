------------------------------- MODULE Grain -------------------------------
(***************************************************************************)
(* The parameter generation of Poseidon ("Grain-LFSR-derived constants",   *)
(* property C09) as a state machine, structured like the implementation    *)
(* (utils/src/poseidon/poseidon_constants.rs) and like the reference       *)
(* script generate_parameters_grain.sage:                                  *)
(*   register  : 80 bits, b0 b1 = field, b2..b5 = s-box, b6..b17 = n,      *)
(*               b18..b29 = t, b30..b39 = RF, b40..b49 = RP, b50..b79 = 1; *)
(*               160 warm-up updates                                       *)
(*   Upd       : new = b62 + b51 + b38 + b23 + b13 + b0 (mod 2), shift     *)
(*   GetBit    : draw pairs until the first bit of a pair is 1, output the *)
(*               second                                                    *)
(*   element   : n output bits, most significant first                     *)
(*   round constants : (RF + RP) * t elements by REJECTION sampling        *)
(*   matrix    : x_1..x_t, y_1..y_t by reduction modulo p (no rejection),  *)
(*               M[i][j] = 1 / (x_i + y_j)                                 *)
(* One step of the machine = one drawn element (the three inner loops are  *)
(* recursive operators), then one step per matrix entry.  The machine is   *)
(* deterministic: TLC runs its single behaviour to the end and checks in   *)
(* every state that every element drawn so far is the entry of the table K *)
(* at its position (Conforms) and at the end that the table has no more    *)
(* entries than were drawn (Complete).  K is either the circomlib table    *)
(* the Poseidon judge uses (poseidon_constants.json) or the constants the  *)
(* library generated at run time (dumped by the harness): both must be     *)
(* the stream specified here.                                              *)
(***************************************************************************)
EXTENDS BigNat, Json, IOUtils, FiniteSets

PBN == <<1, 0, 0, 240, 147, 245, 225, 67, 145, 112, 185, 121, 72, 232, 51, 40, 93, 88, 129, 129, 182, 69,
         80, 184, 41, 160, 49, 225, 114, 78, 100, 48>>
NBits == 254

K == JsonDeserialize(IOEnv.GRAIN_TABLE)                 \* [T, RF, RP, C, M]
Idx == atoi(IOEnv.GRAIN_IDX)                            \* which parameter set (1-based)
T == K.T[Idx]
RF == K.RF[Idx]
RP == K.RP[Idx]
NArk == (RF + RP) * T

VARIABLES reg,      \* the register, reg[1] = the bit at `head`
          stage,    \* "warm" | "ark" | "xs" | "ys" | "mds" | "done"
          k,        \* elements accepted in this stage / matrix entries checked
          xs, ys,   \* the matrix seeds
          rejected, \* draws rejected so far (ark stage)
          bad       \* positions whose table entry is not the element drawn
vars == <<reg, stage, k, xs, ys, rejected, bad>>

\* ---- register
RECURSIVE BitsOf(_, _)                                  \* w bits of v, most significant first
BitsOf(v, w) == IF w = 0 THEN <<>> ELSE Append(BitsOf(v \div 2, w - 1), v % 2)
Reg0 == <<0, 1>> \o <<0, 0, 0, 0>> \o BitsOf(NBits, 12) \o BitsOf(T, 12) \o BitsOf(RF, 10) \o BitsOf(RP, 10)
        \o [i \in 1..30 |-> 1]
Upd(r) == Append(Tail(r), (r[63] + r[52] + r[39] + r[24] + r[14] + r[1]) % 2)      \* the new bit is the last one
RECURSIVE Warm(_, _)
Warm(r, n) == IF n = 0 THEN r ELSE Warm(Upd(r), n - 1)

\* ---- get_bits: the register after the output bit was produced; the output bit is its last element
RECURSIVE GetBit(_)
GetBit(r) == LET r1 == Upd(r)
                 r2 == Upd(r1)
             IN IF r1[80] = 1 THEN r2 ELSE GetBit(r2)
RECURSIVE GetBits(_, _, _)
GetBits(r, n, acc) == IF n = 0 THEN <<acc, r>>
                      ELSE LET g == GetBit(r) IN GetBits(g, n - 1, Append(acc, g[80]))
\* bits (most significant first) -> little-endian bytes
ByteAt(bs, j) == LET lo == 8 * (j - 1) IN
  LET B0(kk) == IF lo + kk < NBits THEN bs[NBits - (lo + kk)] * Pow2(kk) ELSE 0
  IN B0(0) + B0(1) + B0(2) + B0(3) + B0(4) + B0(5) + B0(6) + B0(7)
ToNat(bs) == Norm([j \in 1..32 |-> ByteAt(bs, j)])
Draw(r) == LET g == GetBits(r, NBits, <<>>) IN [val |-> ToNat(g[1]), reg |-> g[2]]

\* ---- a mod p for a < 2^512: a - q*p for an estimated quotient q <= a / p, then subtraction while >= p.
\* The result is a mod p for ANY q with q*p <= a (the estimate only decides how many subtractions follow);
\* Mu = floor(2^512 / p) makes it q = floor(a * Mu / 2^512) >= floor(a / p) - 2.
Mu == <<89, 146, 222, 225, 107, 58, 112, 32, 230, 10, 136, 158, 0, 82, 72, 20, 71, 1, 115, 128, 134, 165, 116, 176, 122, 74, 160, 35, 38, 70, 71, 74, 5>>
RECURSIVE RedN(_)
RedN(a) == IF Le(PBN, a) THEN RedN(Sub(a, PBN)) ELSE a
ModP(a) == LET q == ShrBits(Mul(a, Mu), 512)
               qp == Mul(q, PBN)
           IN IF Le(qp, a) THEN RedN(Sub(a, qp)) ELSE RedN(a)

Init == /\ reg = Reg0 /\ stage = "warm" /\ k = 0 /\ xs = <<>> /\ ys = <<>> /\ rejected = 0 /\ bad = {}

\* init(): 160 updates whose output is dropped (an action of its own: TLC evaluates Init on a small stack)
WarmUp == /\ stage = "warm" /\ reg' = Warm(reg, 160) /\ stage' = "ark" /\ UNCHANGED <<k, xs, ys, rejected, bad>>
\* get_field_elements_rejection_sampling, one draw
Ark == /\ stage = "ark" /\ k < NArk
       /\ \E d \in {Draw(reg)} : \E acc \in {Lt(d.val, PBN)} :     \* (bound once: TLC re-evaluates LET definitions at every use)
          LET dummy == 0                      \* value < modulus: taken; otherwise dropped, same position again
          IN /\ reg' = d.reg
             /\ k' = IF acc THEN k + 1 ELSE k
             /\ rejected' = IF acc THEN rejected ELSE rejected + 1
             /\ bad' = IF ~acc \/ (k + 1 <= Len(K.C[Idx]) /\ Eq(K.C[Idx][k + 1], d.val)) THEN bad ELSE bad \cup {<<"C", k + 1>>}
       /\ UNCHANGED <<stage, xs, ys>>
ArkDone == /\ stage = "ark" /\ k = NArk /\ stage' = "xs" /\ k' = 0 /\ UNCHANGED <<reg, xs, ys, rejected, bad>>
\* get_field_elements_mod_p, one draw (2^254 < 2p: one subtraction)
SeedX == /\ stage = "xs"
         /\ \E d \in {Draw(reg)} : /\ reg' = d.reg /\ xs' = Append(xs, ModP(d.val))
         /\ stage' = IF Len(xs) + 1 = T THEN "ys" ELSE "xs"
         /\ UNCHANGED <<k, ys, rejected, bad>>
SeedY == /\ stage = "ys"
         /\ \E d \in {Draw(reg)} : /\ reg' = d.reg /\ ys' = Append(ys, ModP(d.val))
         /\ stage' = IF Len(ys) + 1 = T THEN "mds" ELSE "ys"
         /\ UNCHANGED <<k, xs, rejected, bad>>
\* mds[i][j] = (xs[i] + ys[j])^-1  <=>  mds[i][j] * (xs[i] + ys[j]) = 1 (mod p), entry < p
Entry == /\ stage = "mds" /\ k < T * T
         /\ LET i == (k \div T) + 1
                j == (k % T) + 1
                rows == K.M[Idx]
                ok == /\ Len(rows) = T /\ Len(rows[i]) = T /\ Lt(rows[i][j], PBN)
                      /\ Eq(ModP(Mul(rows[i][j], ModP(Add(xs[i], ys[j])))), One)
            IN bad' = IF ok THEN bad ELSE bad \cup {<<"M", i, j>>}
         /\ k' = k + 1 /\ UNCHANGED <<reg, stage, xs, ys, rejected>>
Finish == /\ stage = "mds" /\ k = T * T /\ stage' = "done"
          /\ PrintT(<<"GRAIN-DONE", Idx, T, RF, RP, NArk, rejected, Cardinality(bad)>>)
          /\ UNCHANGED <<reg, k, xs, ys, rejected, bad>>
Next == WarmUp \/ Ark \/ ArkDone \/ SeedX \/ SeedY \/ Entry \/ Finish
Spec == Init /\ [][Next]_vars

\* ---- properties
TypeOK == /\ Len(reg) = 80 /\ stage \in {"warm", "ark", "xs", "ys", "mds", "done"}
          /\ Len(xs) <= T /\ Len(ys) <= T
Conforms == bad = {}                                    \* every element drawn so far is the table's
\* the round numbers are part of the specification (circomlib / the Poseidon paper's table for BN254, x^5, 128-bit security)
CircomlibRP == <<56, 57, 56, 60, 60, 63, 64, 63>>
ParamsOK == /\ Len(K.T) = 8 /\ Len(K.RF) = 8 /\ Len(K.RP) = 8
            /\ \A i \in 1..8 : K.T[i] = i + 1 /\ K.RF[i] = 8 /\ K.RP[i] = CircomlibRP[i]
Complete == stage = "done" => /\ Len(K.C[Idx]) = NArk /\ T = Idx + 1       \* and the table has nothing else
\* the matrix seeds are pairwise distinct and no x_i + y_j vanishes (the entries exist)
SeedsOK == stage = "done" =>
             /\ \A i, j \in 1..T : i # j => ~Eq(xs[i], xs[j]) /\ ~Eq(ys[i], ys[j])
             /\ \A i, j \in 1..T : ~IsZero(ModP(Add(xs[i], ys[j])))
=============================================================================
