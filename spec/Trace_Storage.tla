--------------------------- MODULE Trace_Storage ---------------------------
(***************************************************************************)
(* Judge for persistence / fault-injection traces (C16; C15 after reopen). *)
(* The recorded run drives an RLN instance on a non-temporary location     *)
(* through tree operations, flush, drop and reopen, with hook H1 making a  *)
(* chosen storage operation fail.  The judge follows Storage.tla at the    *)
(* level of whole operations:                                              *)
(*  - live, no fault: every call is a step of the ideal tree (TreeOps);    *)
(*  - the call during which the injected failure fired must report an      *)
(*    error (never success, never a crash) - creation included;            *)
(*  - reopen after a clean flush: leaves, mark, root, metadata are those   *)
(*    acknowledged before closing (Storage!Durable);                       *)
(*  - reopen after a fault: every leaf / mark / metadata is the            *)
(*    acknowledged or the intended value (Storage!Dur); the live instance  *)
(*    after a failure is not judged (the property does not speak of it).   *)
(* The order of individual storage writes is not imposed on the code.      *)
(***************************************************************************)
EXTENDS Trace_Tree

VARIABLES meta,     \* acknowledged metadata (sequence of bytes)
          phase,    \* "none" | "live" | "failed" | "closed" | "failedclosed" | "unjudged"
          pend,     \* what the failed operation would have produced: [pre, post, premeta, postmeta]
          pinit,    \* state and metadata just before the first batch initialisation of this live phase
          lastl,    \* line of the last successful flush of the instance that was then dropped (0 = none)
          retried,  \* a call was issued on the live instance after the injected failure (a retry)
          since     \* acknowledged states [t, meta] of the live instance since its last successful flush (or creation)
svars == <<l, t, d, used, meta, phase, pend, pinit, lastl, retried, since>>

NoPend == [pre |-> Empty, post |-> Empty, premeta |-> <<>>, postmeta |-> <<>>, ts |-> {Empty}, metas |-> {<<>>}, preroot |-> -1]
\* the root the instance reported on the line before line k (-1 if that line carries no usable observation)
RootBefore(k) == IF k > 1 /\ "obs" \in DOMAIN Rec[k - 1] /\ ~Broken(Rec[k - 1].obs) THEN Rec[k - 1].obs.root ELSE -1
NoInit == [on |-> FALSE, t |-> Empty, meta |-> <<>>]

SInit == l = 1 /\ t = Empty /\ d = 0 /\ used = {} /\ meta = <<>> /\ phase = "none" /\ pend = NoPend /\ pinit = NoInit /\ lastl = 0 /\ retried = FALSE /\ since = {}

ObsMeta(o) == IF "meta" \in DOMAIN o THEN o.meta ELSE <<>>
MetaAfter(op, m) == IF op.c = "set_meta" THEN op.m ELSE m

\* ---- what each line must satisfy ----
\* reopen after a fault: Storage!Dur on the observation
\* pend.ts / pend.metas: the states a reopen may legitimately find per position: after an injected error {acknowledged,
\* intended}; after a crash every acknowledged state since the last successful flush, and the intended one
DurOK(o, dd) ==
  /\ ~Broken(o)
  /\ o.next \in {s.next : s \in pend.ts}
  /\ ObsMeta(o) \in pend.metas
  /\ IF Sparse(o)
     THEN /\ \A i \in NZPos(o) : NZVal(o, i) \in {Lf(s, i) : s \in pend.ts}
          /\ \A i \in UNION {DOMAIN s.lv : s \in pend.ts} : SparseLeaf(o, i) \in {Lf(s, i) : s \in pend.ts}
     ELSE \A i \in 0..(Cap(dd) - 1) : ObsLeaf(o, i) \in {Lf(s, i) : s \in pend.ts}

SameAsBefore(o, b) ==
  /\ ~Broken(o) /\ ~Broken(b)
  /\ o.next = b.next /\ o.root = b.root /\ ObsMeta(o) = ObsMeta(b)
  /\ IF Sparse(o) THEN o.nz = b.nz ELSE o.leaves = b.leaves

OpenOK(e) ==
  IF ~e.existed
  THEN IF e.fired THEN e.res = "err"                       \* a failing creation is reported
       ELSE /\ e.res = "ok"
            /\ (Prop = "C16" => StateOK(e.obs, e.d, Empty) /\ ObsMeta(e.obs) = <<>>)
            /\ (Prop = "C15" => EmptiesOK(e.obs, Empty))
  ELSE CASE phase = "closed" ->
              /\ e.res = "ok"
              /\ (Prop = "C16" => StateOK(e.obs, e.d, t) /\ ObsMeta(e.obs) = meta)
              /\ (Prop = "C15" => EmptiesOK(e.obs, t))
         [] phase = "failedclosed" ->
              /\ e.res = "ok"
              /\ (Prop = "C16" /\ ~retried => DurOK(e.obs, e.d))
              \* whatever happened before, a SUCCESSFUL flush followed by a reopen yields what the instance
              \* itself reported before closing (root, leaf count, leaves, metadata)
              /\ (Prop = "C16" /\ lastl > 0 /\ ~pinit.on => SameAsBefore(e.obs, Rec[lastl].obs))
         [] OTHER -> e.res # "panic"                         \* half-created location etc.: nothing was acknowledged, but no crash

OpOK(e) ==
  IF phase # "live" THEN TRUE
  ELSE IF e.fired THEN e.res = "err"                        \* the failure is reported by the call it hit
  ELSE LET r == Expected(e)
           post == After(t, r, e.res)
       IN IF e.op.c = "flush" THEN e.res = "ok"
          ELSE /\ (Prop = "C16" => e.res \in r.res /\ StateOK(e.obs, d, post)
                                   /\ (e.op.c # "init" => ObsMeta(e.obs) = MetaAfter(e.op, meta)))
               /\ (Prop = "C15" => (e.res \in r.res => EmptiesOK(e.obs, post)))

SLineOK(e) ==
  CASE e.t = "open" -> OpenOK(e)
    [] e.t = "op" -> OpOK(e)
    [] OTHER -> TRUE

\* ---- bookkeeping: how the judge's state moves on (independent of the verdict) ----
SAdvance(e) ==
  /\ l' = l + 1
  /\ CASE e.t = "open" ->
            /\ d' = e.d
            /\ IF e.res = "ok" /\ ~Broken(e.obs)
               THEN /\ t' = Adopt(e.obs, e.d, t)
                    /\ meta' = ObsMeta(e.obs)
                    /\ phase' = (IF ~e.existed \/ phase = "closed" THEN "live" ELSE "unjudged")
               ELSE t' = Empty /\ meta' = <<>> /\ phase' = "unjudged"
            /\ pend' = NoPend /\ pinit' = NoInit /\ lastl' = 0 /\ retried' = FALSE
       [] e.t = "op" ->
            /\ d' = d
            /\ lastl' = (IF e.op.c = "flush" /\ e.res = "ok" /\ ~e.fired THEN l ELSE 0)
            /\ retried' = (retried \/ (phase = "failed" /\ e.op.c # "flush"))
            /\ IF phase = "live" /\ e.fired
               THEN /\ phase' = "failed"
                    /\ pend' = [pre |-> t, post |-> After(t, Expected(e), "ok"),
                                premeta |-> meta, postmeta |-> MetaAfter(e.op, meta),
                                ts |-> {t, After(t, Expected(e), "ok")}, metas |-> {meta, MetaAfter(e.op, meta)},
                                preroot |-> RootBefore(l)]
                    /\ UNCHANGED <<t, meta, pinit>>
               ELSE /\ UNCHANGED <<phase, pend>>
                    /\ pinit' = (IF phase = "live" /\ e.op.c = "init" /\ e.res = "ok" /\ ~pinit.on
                                 THEN [on |-> TRUE, t |-> t, meta |-> meta] ELSE pinit)
                    /\ IF Broken(e.obs) THEN UNCHANGED <<t, meta>>
                       ELSE /\ t' = Adopt(e.obs, d, After(t, Expected(e), e.res))
                            /\ meta' = ObsMeta(e.obs)
       [] e.t = "crash" ->
            \* the process died inside a storage operation of the call e.inflight (crash point); what the dead
            \* instance had acknowledged is t (replayed on a shadow location); nothing was reported for the call in flight
            /\ phase' = (IF e.opened THEN "failedclosed" ELSE "unjudged")
            /\ pend' = [pre |-> t, post |-> After(t, SpecStep(d, t, e.inflight), "ok"),
                        premeta |-> meta, postmeta |-> MetaAfter(e.inflight, meta),
                        ts |-> {x.t : x \in since} \cup {t, After(t, SpecStep(d, t, e.inflight), "ok")},
                        metas |-> {x.meta : x \in since} \cup {meta, MetaAfter(e.inflight, meta)}, preroot |-> -1]
            /\ lastl' = 0 /\ retried' = FALSE
            /\ UNCHANGED <<t, d, meta, pinit>>
       [] e.t = "drop" ->
            /\ phase' = (CASE phase = "live" -> "closed" [] phase = "failed" -> "failedclosed" [] OTHER -> phase)
            /\ UNCHANGED <<t, d, meta, pend, pinit, lastl, retried>>
       [] OTHER -> UNCHANGED <<t, d, meta, phase, pend, pinit, lastl, retried>>
  /\ since' = (CASE e.t = "open" -> {[t |-> t', meta |-> meta']}
                 [] e.t = "op" -> (IF e.op.c = "flush" /\ e.res = "ok" /\ ~e.fired THEN {[t |-> t', meta |-> meta']}
                                   ELSE since \cup {[t |-> t', meta |-> meta']})
                 [] OTHER -> since)

-----------------------------------------------------------------------------
\* Known findings of this judge
SKFPred(name, e) ==
  CASE name = "persistent-init-relocates" ->
         \* after a batch initialisation on a persistent location the tree lives in a fresh temporary
         \* database: a clean flush/close/reopen finds the tree as it was BEFORE the initialisation
         /\ e.t = "open" /\ e.existed /\ phase = "closed" /\ pinit.on /\ e.res = "ok"
         /\ (Prop = "C16" => StateOK(e.obs, e.d, pinit.t) /\ ObsMeta(e.obs) = pinit.meta)
         /\ (Prop = "C15" => EmptiesSeen(e.obs) /\ SeqSet(e.obs.empties) = 0..(e.obs.next - 1))
    [] name = "pm-reopen-flags-lost" ->
         \* the empty-position flags are volatile: after a reopen every position below the mark is listed
         /\ Prop = "C15" /\ e.t = "open" /\ e.existed /\ phase = "closed" /\ e.res = "ok"
         /\ ~Broken(e.obs) /\ EmptiesSeen(e.obs)
         /\ SeqSet(e.obs.empties) = 0..(e.obs.next - 1)
         /\ \A k \in 1..(Len(e.obs.empties) - 1) : e.obs.empties[k] < e.obs.empties[k + 1]
    [] name = "pm-next-memory-ahead" ->
         \* pmtree raises its in-memory leaf count BEFORE persisting it: when exactly that write fails, the
         \* live instance reports the new count, the flush succeeds, and the reopened tree has the old one
         /\ Prop = "C16" /\ e.t = "open" /\ e.existed /\ phase = "failedclosed" /\ e.res = "ok" /\ lastl > 0
         /\ ~Broken(e.obs) /\ ~Broken(Rec[lastl].obs)
         /\ LET o == e.obs
                b == Rec[lastl].obs
            IN /\ o.next = pend.pre.next /\ b.next = pend.post.next /\ pend.pre.next < pend.post.next
               /\ o.root = b.root /\ ObsMeta(o) = ObsMeta(b)
               /\ (IF Sparse(o) THEN o.nz = b.nz ELSE o.leaves = b.leaves)
               /\ (~retried => DurOK(o, e.d))
    [] name = "pm-batch-root-memory-behind" ->
         \* the same non-transactional update of the in-memory fields in pmtree's batch write: the batch is written,
         \* the in-memory leaf count is raised, the write of the count fails, the in-memory ROOT is not updated any more:
         \* the live instance reports the new count with the OLD root, the flush succeeds, the reopened tree has the old
         \* count with the NEW root (the leaves agree)
         /\ Prop = "C16" /\ e.t = "open" /\ e.existed /\ phase = "failedclosed" /\ e.res = "ok" /\ lastl > 0
         /\ ~Broken(e.obs) /\ ~Broken(Rec[lastl].obs)
         /\ LET o == e.obs
                b == Rec[lastl].obs
            IN /\ o.next = pend.pre.next /\ b.next = pend.post.next /\ pend.pre.next < pend.post.next
               /\ b.root = pend.preroot /\ o.root # b.root /\ ObsMeta(o) = ObsMeta(b)
               /\ (IF Sparse(o) THEN o.nz = b.nz ELSE o.leaves = b.leaves)
               /\ (~retried => DurOK(o, e.d))
    [] name = "pm-override-batch" -> e.t = "op" /\ phase = "live" /\ ~e.fired /\ PmOverrideMatches(e)
    [] OTHER -> FALSE

SKFMatches(e) == {name \in SeqSet(Ctl.kf) : SKFPred(name, e)}

SGood == More /\ SLineOK(Rec[l]) /\ SAdvance(Rec[l]) /\ UNCHANGED used
SKnown ==
  /\ More /\ ~SLineOK(Rec[l]) /\ SKFMatches(Rec[l]) # {}
  /\ PrintT(<<"KF", CHOOSE n \in SKFMatches(Rec[l]) : TRUE, l>>)
  /\ used' = used \cup SKFMatches(Rec[l])
  /\ SAdvance(Rec[l])
SWhy(e) ==
  IF e.t = "open" THEN <<"open", "existed", e.existed, "phase", phase, "result", e.res, "fired", e.fired,
                         "observed", [next |-> (IF Broken(e.obs) THEN -1 ELSE e.obs.next)],
                         "acknowledged", t, "meta", meta, "pending", pend>>
  ELSE IF e.t = "op" /\ e.fired THEN <<"the call hit by the injected failure reported", e.res>>
  ELSE IF e.t = "op" THEN <<"call", e.op, "result", e.res, "allowed", Expected(e).res,
                            "observed next", (IF Broken(e.obs) THEN -1 ELSE e.obs.next),
                            "expected state", After(t, Expected(e), e.res), "expected meta", MetaAfter(e.op, meta)>>
  ELSE <<>>
SDeviation ==
  /\ More /\ ~SLineOK(Rec[l]) /\ SKFMatches(Rec[l]) = {}
  /\ PrintT(<<"DEV", l>>)
  /\ PrintT(<<"WHY", l, SWhy(Rec[l])>>)
  /\ SAdvance(Rec[l]) /\ UNCHANGED used

SNext == SGood \/ SKnown \/ SDeviation
SSpec == SInit /\ [][SNext]_svars
=============================================================================
