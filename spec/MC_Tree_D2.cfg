SPECIFICATION Spec
CONSTANTS
  Depth = 2
  Vals = {0, 1, 2}
  MaxBatch = 2
  MaxRem = 5
  Ops = {"set", "delete", "append", "range", "override", "init"}
  Emit = FALSE
  HistLen = 0
INVARIANTS TypeOK EmptiesOK ProofOK BatchIsSequence InitIsFreshThenWrite RangeIsSequence RejectUnchanged
CHECK_DEADLOCK FALSE
