-------------------------------- MODULE Conc --------------------------------
(***************************************************************************)
(* Concurrent read-only use of one shared instance, and re-creation of an  *)
(* instance on a storage location right after the previous one is dropped. *)
(*                                                                         *)
(* Readers 1..N each issue K calls against a FROZEN abstract state; every  *)
(* call first needs the lazily initialised globals (hash constants, keys:  *)
(* once-cells): the first caller initialises, the others wait until the    *)
(* cell is ready (they never see a half-initialised value, and never       *)
(* initialise twice).  A response is a function of (frozen state, call)    *)
(* only.  Checked: Linearisable (every response equals the sequential      *)
(* one), InitOnce, and - under weak fairness - Termination.                *)
(*                                                                         *)
(* Opener: the storage lock is released when the old handle is dropped;    *)
(* a new open retries while the lock is held (at most MaxTries attempts,   *)
(* back-off elided): LockReleased ~> Opened, and never more than MaxTries. *)
(***************************************************************************)
EXTENDS Integers, Sequences, FiniteSets, TLC

CONSTANTS N, K, Calls, MaxTries
Readers == 1..N
Frozen == "S0"
SeqSpec(c) == <<Frozen, c>>                      \* the sequential specification of a read-only call

VARIABLES cell,      \* "uninit" | "initing" | "ready"
          initBy,    \* who initialised (0 = nobody)
          inits,     \* how many initialisations ran
          pc,        \* reader -> number of completed calls
          cur,       \* reader -> call in progress or "idle"
          resp,      \* reader -> sequence of <<call, response>>
          lock,      \* "held" | "free"   (storage lock of the previous instance)
          tries, opened
vars == <<cell, initBy, inits, pc, cur, resp, lock, tries, opened>>

Init == /\ cell = "uninit" /\ initBy = 0 /\ inits = 0
        /\ pc = [r \in Readers |-> 0] /\ cur = [r \in Readers |-> "idle"] /\ resp = [r \in Readers |-> <<>>]
        /\ lock = "held" /\ tries = 0 /\ opened = FALSE

Begin(r) == /\ cur[r] = "idle" /\ pc[r] < K
            /\ \E c \in Calls : cur' = [cur EXCEPT ![r] = c]
            /\ UNCHANGED <<cell, initBy, inits, pc, resp, lock, tries, opened>>
StartInit(r) == /\ cur[r] # "idle" /\ cell = "uninit"
                /\ cell' = "initing" /\ initBy' = r /\ inits' = inits + 1
                /\ UNCHANGED <<pc, cur, resp, lock, tries, opened>>
FinishInit(r) == /\ cell = "initing" /\ initBy = r
                 /\ cell' = "ready"
                 /\ UNCHANGED <<initBy, inits, pc, cur, resp, lock, tries, opened>>
Respond(r) == /\ cur[r] # "idle" /\ cell = "ready"          \* waits while another reader initialises
              /\ resp' = [resp EXCEPT ![r] = Append(@, <<cur[r], SeqSpec(cur[r])>>)]
              /\ pc' = [pc EXCEPT ![r] = @ + 1] /\ cur' = [cur EXCEPT ![r] = "idle"]
              /\ UNCHANGED <<cell, initBy, inits, lock, tries, opened>>
\* storage: the dropped handle releases the lock; the opener retries while it is held
Release == /\ lock = "held" /\ lock' = "free" /\ UNCHANGED <<cell, initBy, inits, pc, cur, resp, tries, opened>>
TryOpen == /\ ~opened /\ tries < MaxTries
           /\ tries' = tries + 1
           /\ opened' = (lock = "free")
           /\ UNCHANGED <<cell, initBy, inits, pc, cur, resp, lock>>

Next == (\E r \in Readers : Begin(r) \/ StartInit(r) \/ FinishInit(r) \/ Respond(r)) \/ Release \/ TryOpen
Fairness == /\ \A r \in Readers : WF_vars(Begin(r)) /\ WF_vars(StartInit(r)) /\ WF_vars(FinishInit(r)) /\ WF_vars(Respond(r))
            /\ WF_vars(Release)
Spec == Init /\ [][Next]_vars /\ Fairness

Linearisable == \A r \in Readers : \A k \in 1..Len(resp[r]) : resp[r][k][2] = SeqSpec(resp[r][k][1])
InitOnce == inits <= 1 /\ (cell = "ready" => inits = 1)
NoEarlyResponse == (cell # "ready") => \A r \in Readers : resp[r] = <<>>
Termination == <>(\A r \in Readers : pc[r] = K)
\* once the lock is free, an attempt made from then on succeeds; the retry budget bounds the attempts
OpenSucceedsWhenFree == [][(lock = "free" /\ tries' = tries + 1) => opened']_vars
BoundedTries == tries <= MaxTries
=============================================================================
