----------------------------- MODULE TreePmOps -----------------------------
(***************************************************************************)
(* Functional core of TreePm.tla (no variables): the store as a map from   *)
(* Cantor keys to values and the node algorithms of vacp2p_pmtree          *)
(* (new, set / recalculate_from, delete, batch_insert = fill_nodes +       *)
(* batch_recalculate + put_batch, proof) as operators.  Shared by the      *)
(* state machine TreePm.tla, its trace specification and BatchConc.tla.    *)
(***************************************************************************)
EXTENDS TreeOps

CONSTANTS Depth, Vals, MaxBatch, Variant
Cap == Pow2(Depth)

H(a, b) == <<"H", a, b>>
Leaf(v) == <<"L", v>>
KDepth == -2
KNext == -1
Key(l, i) == IF Variant = "pairing-without-index" THEN ((l + i) * (l + i + 1)) \div 2
             ELSE ((l + i) * (l + i + 1)) \div 2 + i
Cache(l) == ZNode(Depth, l)
DPut(d, k, v) == [x \in DOMAIN d \cup {k} |-> IF x = k THEN v ELSE d[x]]
GetElem(d, l, i) == IF Key(l, i) \in DOMAIN d THEN d[Key(l, i)] ELSE Cache(l)

R4(res, d, nx, rt) == [res |-> res, db |-> d, nx |-> nx, rt |-> rt]

\* ---- new
RECURSIVE NewBranch(_, _)
NewBranch(d, l) == IF l < 0 THEN d ELSE NewBranch(DPut(d, Key(l, 0), Cache(l)), l - 1)
NewDb == NewBranch(DPut(DPut(<< >>, KDepth, Depth), KNext, 0), Depth)

\* ---- set
RECURSIVE Recalc(_, _, _)
Recalc(d, l, i) ==            \* recalculate_from: l = level of the couple, i = index inside it
  LET b == i - (i % 2)
      v == H(GetElem(d, l, b), GetElem(d, l, b + 1))
      d2 == DPut(d, Key(l - 1, i \div 2), v)
  IN IF l - 1 = 0 THEN [db |-> d2, rt |-> v] ELSE Recalc(d2, l - 1, i \div 2)
PSet(d, nx, rt, i, v) ==
  IF i >= Cap THEN R4("err", d, nx, rt)
  ELSE LET r == Recalc(DPut(d, Key(Depth, i), Leaf(v)), Depth, i)
           n2 == Max(nx, i + 1)
       IN R4("ok", DPut(r.db, KNext, n2), n2, r.rt)
PDelete(d, nx, rt, i) == IF i >= nx THEN R4("err", d, nx, rt) ELSE PSet(d, nx, rt, i, Z)

\* ---- batch_insert (leaves non-empty: the adapter never passes an empty range)
RECURSIVE Fill(_, _, _, _, _, _, _, _)
Fill(sub, d, l, i, s, e, vs, from) ==
  IF l = Depth THEN (IF i >= from THEN DPut(sub, <<l, i>>, Leaf(vs[i - from + 1])) ELSE sub)
  ELSE LET half == Pow2(Depth - l - 1)
           s1 == DPut(DPut(sub, <<l + 1, 2 * i>>, GetElem(d, l + 1, 2 * i)), <<l + 1, 2 * i + 1>>, GetElem(d, l + 1, 2 * i + 1))
           s2 == IF s < half THEN Fill(s1, d, l + 1, 2 * i, s, Min(e, half), vs, from) ELSE s1
       IN IF e > half THEN Fill(s2, d, l + 1, 2 * i + 1, 0, e - half, vs, from) ELSE s2
RECURSIVE BRecalc(_, _, _)
BRecalc(sub, l, i) ==         \* returns <<value, subtree>>
  IF l = Depth \/ <<l + 1, 2 * i>> \notin DOMAIN sub THEN <<sub[<<l, i>>], sub>>
  ELSE LET a == BRecalc(sub, l + 1, 2 * i)
           b == IF Variant = "recalc-left-only" THEN <<a[2][<<l + 1, 2 * i + 1>>], a[2]>> ELSE BRecalc(a[2], l + 1, 2 * i + 1)
           v == H(a[1], b[1])
       IN <<v, DPut(b[2], <<l, i>>, v)>>
RECURSIVE PutAll(_, _, _)
PutAll(d, sub, ks) == IF ks = {} THEN d ELSE LET k == CHOOSE x \in ks : TRUE IN PutAll(DPut(d, Key(k[1], k[2]), sub[k]), sub, ks \ {k})
PBatch(d, nx, rt, st, vs) ==
  LET e == st + Len(vs) IN
  IF e > Cap THEN R4("err", d, nx, rt)
  ELSE LET sub == Fill(DPut(<< >>, <<0, 0>>, rt), d, 0, 0, st, e, vs, st)
           rc == BRecalc(sub, 0, 0)
           d2 == PutAll(d, rc[2], DOMAIN rc[2])
           grows == e > nx
       IN R4("ok", IF grows THEN DPut(d2, KNext, e) ELSE d2, IF grows THEN e ELSE nx,
             IF Variant = "root-inside-if" /\ ~grows THEN rt ELSE rc[1])

\* ---- proof
PProof(d, i) == [k \in 1..Depth |-> LET l == Depth - k + 1
                                        a == Anc(Depth, i, l)
                                        sb == IF a % 2 = 0 THEN a + 1 ELSE a - 1
                                    IN [sib |-> GetElem(d, l, sb), bit |-> 1 - (sb % 2)]]
=============================================================================
