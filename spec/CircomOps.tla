----------------------------- MODULE CircomOps -----------------------------
(***************************************************************************)
(* circom's field semantics of the witness-graph operators, over naturals  *)
(* as little-endian byte sequences (BigNat), parametric in the prime P:    *)
(* the same text is checked exhaustively by TLC for a one-byte prime and   *)
(* used by the judges with the BN254 scalar field order.                   *)
(*   NB = bit length of P, Mask = 2^NB - 1, Half = P div 2.                *)
(*   comparisons act on the signed representation (a > Half is negative);  *)
(*   shifts: for 0 <= k <= Half: x >> k = x div 2^k, x << k = ((x*2^k) &   *)
(*   Mask) mod P; for Half < k < P the shift goes the other way by P - k;  *)
(*   bitwise operators are masked and reduced; division by zero gives 0.   *)
(* Mul / Div / Idiv / Mod / Pow are given relationally (Rel), so that a    *)
(* claimed result can be checked with an untrusted quotient as advice.     *)
(***************************************************************************)
EXTENDS BigNat

CONSTANT P                                   \* the prime, as a BigNat
NB == BitLen(P)
Half == ShrBits(P, 1)
Red(a) == IF Le(P, a) THEN Sub(a, P) ELSE a   \* one conditional subtraction (argument below 2P)
Bool(x) == IF x THEN One ELSE Zero
IsNeg(a) == Lt(Half, a)
SLt(a, b) == IF IsNeg(a) = IsNeg(b) THEN Lt(a, b) ELSE IsNeg(a)
Small(k) == Lt(k, FromInt(NB))                \* a shift count that moves less than NB bits
ShlK(a, k) == IF Small(k) THEN Red(MaskBits(ShlBits(a, ToInt(k)), NB)) ELSE Zero
ShrK(a, k) == IF Small(k) THEN ShrBits(a, ToInt(k)) ELSE Zero

Fn(op, a, b) ==
  CASE op = "Add" -> Red(Add(a, b))
    [] op = "Sub" -> IF Le(b, a) THEN Sub(a, b) ELSE Sub(Add(a, P), b)
    [] op = "Eq" -> Bool(Eq(a, b))
    [] op = "Neq" -> Bool(~Eq(a, b))
    [] op = "Lt" -> Bool(SLt(a, b))
    [] op = "Gt" -> Bool(SLt(b, a))
    [] op = "Leq" -> Bool(~SLt(b, a))
    [] op = "Geq" -> Bool(~SLt(a, b))
    [] op = "Land" -> Bool(~IsZero(a) /\ ~IsZero(b))
    [] op = "Lor" -> Bool(~IsZero(a) \/ ~IsZero(b))
    [] op = "Band" -> Red(MaskBits(BitOp("and", a, b), NB))
    [] op = "Bor" -> Red(MaskBits(BitOp("or", a, b), NB))
    [] op = "Bxor" -> Red(MaskBits(BitOp("xor", a, b), NB))
    [] op = "Shr" -> IF Le(b, Half) THEN ShrK(a, b) ELSE ShlK(a, Sub(P, b))
    [] op = "Shl" -> IF Le(b, Half) THEN ShlK(a, b) ELSE ShrK(a, Sub(P, b))

IsRel(op) == op \in {"Mul", "Div", "Idiv", "Mod"}
\* c = claimed result, q = untrusted advice
Rel(op, a, b, c, q) ==
  CASE op = "Mul" -> Eq(Mul(a, b), Add(Mul(q, P), c))
    [] op = "Div" -> IF IsZero(b) THEN IsZero(c) ELSE Eq(Mul(c, b), Add(Mul(q, P), a))
    [] op = "Idiv" -> IF IsZero(b) THEN IsZero(c) ELSE Le(Mul(b, c), a) /\ Lt(Sub(a, Mul(b, c)), b)
    [] op = "Mod" -> IF IsZero(b) THEN IsZero(c) ELSE Eq(Add(Mul(b, q), c), a) /\ Lt(c, b)

Neg(a) == IF IsZero(a) THEN Zero ELSE Sub(P, a)
Tern(a, b, c) == IF IsZero(a) THEN c ELSE b

\* a recorded evaluation c = op(a, b) with advice q
Holds(op, a, b, c, q) == Lt(c, P) /\ (IF IsRel(op) THEN Rel(op, a, b, c, q) ELSE Eq(c, Fn(op, a, b)))
=============================================================================
