SPECIFICATION CSpec
CONSTANTS
  Depth = 3
  Vals = {1}
  MaxBatch = 2
  Variant = "none"
INVARIANTS Deterministic NoRacyRead PairsTogether
PROPERTY Termination
