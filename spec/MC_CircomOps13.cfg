INIT Init
NEXT Next
CONSTANT P <- P13
