-------------------------- MODULE Trace_RelayCli --------------------------
(***************************************************************************)
(* Trace validation of the repository's own relay application              *)
(* (rln-cli/src/examples/relay.rs, unmodified, driven through stdin,       *)
(* observed through stdout) against Relay.tla with Window = 1: the         *)
(* application verifies every message against the current root right       *)
(* after proving it, keeps a nullifier log, refuses exact duplicates, and  *)
(* on double signalling recovers the secret and removes the member.        *)
(* One `send` of the application is two or three actions of the design;    *)
(* the driver emits one line per action (pub, val, slash), so Relay's      *)
(* actions are reused as they are:                                         *)
(*   register : Register(index + 1); indices are handed out in order;      *)
(*   pub      : a proof came out  <=>  the sender is a registered,         *)
(*              unslashed member and the message id is below the limit;    *)
(*   pubrej   : the opposite;                                              *)
(*   val      : the application's reaction is the design's Classify;       *)
(*   slash    : the leaked secret is the one printed at registration, the  *)
(*              slashed index is the sender's.                             *)
(***************************************************************************)
EXTENDS Relay, IOUtils

Rec == ndJsonDeserialize(IOEnv.TRACE)
VARIABLES l, dead, secretOf
tv == <<l, dead, secretOf>>
allvars == <<vars, tv>>
More == l <= Len(Rec)
Ev == Rec[l]

ResetModel ==
  /\ members' = {} /\ window' = <<TreeRoot({})>> /\ net' = <<>> /\ verdict' = <<>> /\ log' = {} /\ slashed' = {}
  /\ everreg' = {} /\ treeops' = 0 /\ hist' = <<>>

CanSend(m, mid) == m \in everreg /\ m \notin slashed /\ CanProve(mid)

Cond(e) ==
  CASE e.t = "register" -> /\ e.index = Cardinality(everreg)                 \* next free position
                           /\ e.index + 1 \in Members /\ treeops < MaxTreeOps
    [] e.t = "pub" -> CanSend(e.m, e.mid) /\ Len(net) < MaxNet /\ e.m \in members
    [] e.t = "pubrej" -> ~CanSend(e.m, e.mid)
    [] e.t = "val" -> e.i \in DOMAIN net /\ e.i = Len(net) /\ verdict[e.i] = "none" /\ Classify(e.i) = e.cls
    [] e.t = "slash" -> /\ e.i \in DOMAIN net /\ verdict[e.i] = "spam" /\ net[e.i].m \notin slashed
                        /\ e.index = net[e.i].m - 1
                        /\ e.leaked = secretOf[net[e.i].m]
    [] OTHER -> FALSE
Step(e) ==
  CASE e.t = "register" -> Register(e.index + 1) /\ secretOf' = [m \in DOMAIN secretOf \cup {e.index + 1} |->
                                                                   IF m = e.index + 1 THEN e.secret ELSE secretOf[m]]
    [] e.t = "pub" -> Publish(e.m, e.e, e.mid, e.sig) /\ UNCHANGED secretOf
    [] e.t = "pubrej" -> UNCHANGED <<vars, secretOf>>
    [] e.t = "val" -> Validate(e.i) /\ UNCHANGED secretOf
    [] e.t = "slash" -> Slash(e.i) /\ UNCHANGED secretOf
    [] OTHER -> FALSE

TInit == Init /\ l = 1 /\ dead = FALSE /\ secretOf = << >>
Reset == /\ More /\ Ev.t = "reset"
         /\ IF Ev.res = "ok" THEN dead' = FALSE
            ELSE PrintT(<<"DEV", l>>) /\ PrintT(<<"WHY", l, "the application did not start", Ev>>) /\ dead' = TRUE
         /\ ResetModel /\ secretOf' = << >> /\ l' = l + 1
Good == /\ More /\ ~dead /\ Ev.t # "reset" /\ Cond(Ev)
        /\ Step(Ev) /\ l' = l + 1 /\ dead' = FALSE
Deviation == /\ More /\ ~dead /\ Ev.t # "reset" /\ ~Cond(Ev)
             /\ PrintT(<<"DEV", l>>)
             /\ PrintT(<<"WHY", l, Ev, "registered", everreg, "slashed", slashed, "log", log,
                         "class", IF Ev.t = "val" /\ Ev.i \in DOMAIN net THEN Classify(Ev.i) ELSE "-">>)
             /\ dead' = TRUE /\ l' = l + 1 /\ UNCHANGED <<vars, secretOf>>
Skip == /\ More /\ dead /\ Ev.t # "reset" /\ l' = l + 1 /\ UNCHANGED <<vars, dead, secretOf>>
TNext == Reset \/ Good \/ Deviation \/ Skip
TSpec == TInit /\ [][TNext]_allvars
Accepted == (TLCGet("stats").diameter - 1 = Len(Rec)) \/ (PrintT(<<"REJECT", TLCGet("stats").diameter>>) /\ FALSE)
=============================================================================
