----------------------------- MODULE Trace_Conc -----------------------------
(***************************************************************************)
(* Judge for C18.  The order of concurrent events is NOT used: every       *)
(* response is compared with the sequential response of the same call      *)
(* (Conc!Linearisable: the state is frozen, so the sequential              *)
(* specification of a call is its single-threaded answer).                 *)
(*   pool lines   : the transcript of the fixed workload (roots after      *)
(*                  batch updates, witness digest, proof values, verdicts) *)
(*                  is identical for every worker-pool size;               *)
(*   call lines   : response = sequential reference; never a crash;        *)
(*   thread lines : every thread finished (no deadlock within the bound);  *)
(*   reopen lines : re-creating the instance right after the drop          *)
(*                  succeeds within the bound and finds the data;          *)
(*   regeom lines : the same on a location holding a tree of another depth *)
(*                  (an answer within the bound, never a hang).            *)
(***************************************************************************)
EXTENDS Integers, Sequences, TLC, Json, IOUtils

Rec == ndJsonDeserialize(IOEnv.TRACE)
ReopenBoundMs == 30000
VARIABLES l, ref, pool0
vars == <<l, ref, pool0>>
More == l <= Len(Rec)
Transcript(e) == <<e.roots, e.witness, e.pv, e.own_verifies>>

LineOK(e) ==
  CASE e.t = "pool" -> /\ e.own_verifies
                       /\ (pool0 = <<>> \/ pool0 = <<Transcript(e)>>)
                       /\ e.foreign \in {<<>>, <<TRUE, FALSE>>}     \* another process' message: accepted; its tampered copy: not
    [] e.t = "seqref" -> e.resp.res # "panic" \/ e.name = "poseidon_bad"     \* (the one deliberately failing call may fail as it likes)
    [] e.t = "call" -> e.call \in DOMAIN ref /\ e.resp = ref[e.call]
    [] e.t = "thread" -> e.finished
    [] e.t = "reopen" -> e.res = "ok" /\ e.ms <= ReopenBoundMs /\ e.leaf_ok /\ e.leaves = e.n + 1
    \* a location that holds a tree of another depth: an answer (success, or a refusal) within the bound, never a hang
    [] e.t = "regeom" -> e.res \in {"ok", "err"} /\ e.ms <= ReopenBoundMs
    [] e.t = "recreate" -> e.res = "ok" /\ e.ms <= ReopenBoundMs      \* other shapes of the storage configuration (location without "temporary")
    [] e.t = "handover" -> e.res = "ok" /\ e.ms <= ReopenBoundMs      \* another thread is still dropping the previous instance
    [] OTHER -> TRUE

Advance(e) ==
  /\ l' = l + 1
  /\ ref' = (IF e.t = "seqref" THEN [k \in DOMAIN ref \cup {e.call} |-> IF k = e.call THEN e.resp ELSE ref[k]] ELSE ref)
  /\ pool0' = (IF e.t = "pool" /\ pool0 = <<>> THEN <<Transcript(e)>> ELSE pool0)
Init == l = 1 /\ ref = << >> /\ pool0 = <<>>
Good == More /\ LineOK(Rec[l]) /\ Advance(Rec[l])
Deviation == More /\ ~LineOK(Rec[l]) /\ PrintT(<<"DEV", l>>) /\ PrintT(<<"WHY", l, Rec[l].t>>) /\ Advance(Rec[l])
Next == Good \/ Deviation
Spec == Init /\ [][Next]_vars
Accepted == (TLCGet("stats").diameter - 1 = Len(Rec)) \/ (PrintT(<<"REJECT", TLCGet("stats").diameter>>) /\ FALSE)
=============================================================================
