------------------------------- MODULE Codec -------------------------------
(***************************************************************************)
(* The documented wire formats of zerokit as functions from abstract       *)
(* values to byte sequences, and the strict decoders an independent        *)
(* implementation would write.  Parametric in the limb structure so that   *)
(* TLC can check the algebra (round trip, prefix behaviour) exhaustively   *)
(* on a small instance, while the judge (Trace_Codec) uses the real one:   *)
(* a field element = ELimbs limbs of LBytes bytes each, little-endian      *)
(* (real: 16 limbs x 2 bytes = 32 bytes); a usize = ULimbs limbs (real: 4).*)
(***************************************************************************)
EXTENDS Integers, Sequences, TLC

CONSTANTS LBytes, ELimbs, ULimbs
Base == 256

RECURSIVE LimbBytes(_, _)
LimbBytes(v, n) == IF n = 0 THEN <<>> ELSE <<v % Base>> \o LimbBytes(v \div Base, n - 1)   \* little-endian bytes of one limb
RECURSIVE EncLimbs(_)
EncLimbs(ls) == IF ls = <<>> THEN <<>> ELSE LimbBytes(Head(ls), LBytes) \o EncLimbs(Tail(ls))
RECURSIVE Concat(_)
Concat(ss) == IF ss = <<>> THEN <<>> ELSE Head(ss) \o Concat(Tail(ss))

ESize == LBytes * ELimbs
USize == LBytes * ULimbs
RECURSIVE NatLimbs(_, _)
NatLimbs(n, k) == IF k = 0 THEN <<>> ELSE <<n % (Base ^ LBytes)>> \o NatLimbs(n \div (Base ^ LBytes), k - 1)

EncFr(v) == EncLimbs(v)                                    \* v : ELimbs limbs
EncUsizeL(u) == EncLimbs(u)                                \* u : ULimbs limbs
EncLen(n) == EncLimbs(NatLimbs(n, ULimbs))                 \* a length as a usize
EncVecFr(vs) == EncLen(Len(vs)) \o Concat([k \in 1..Len(vs) |-> EncFr(vs[k])])
EncVecU8(bs) == EncLen(Len(bs)) \o bs
EncVecUsize(us) == EncLen(Len(us)) \o Concat([k \in 1..Len(us) |-> EncUsizeL(us[k])])
EncWitness(w) == EncFr(w.s) \o EncFr(w.lim) \o EncFr(w.mid) \o EncVecFr(w.path) \o EncVecU8(w.bits) \o EncFr(w.x) \o EncFr(w.e)
EncProofValues(p) == EncFr(p.root) \o EncFr(p.e) \o EncFr(p.x) \o EncFr(p.y) \o EncFr(p.nul)
EncProveInput(q) == EncFr(q.s) \o EncUsizeL(q.idx) \o EncFr(q.lim) \o EncFr(q.mid) \o EncFr(q.e) \o EncLen(Len(q.sig)) \o q.sig
EncVerifyInput(proof, sig) == proof \o EncLen(Len(sig)) \o sig

\* ---- strict decoders ----
RECURSIVE BytesNat(_)
BytesNat(bs) == IF bs = <<>> THEN 0 ELSE Head(bs) + Base * BytesNat(Tail(bs))
DecLimbs(bs, k) == [j \in 1..k |-> BytesNat(SubSeq(bs, (j - 1) * LBytes + 1, j * LBytes))]
DecFrAt(bs, off) == DecLimbs(SubSeq(bs, off + 1, off + ESize), ELimbs)
DecLenAt(bs, off) == BytesNat(SubSeq(bs, off + 1, off + USize))
Malformed == [ok |-> FALSE]
DecWitness(bs) ==
  IF Len(bs) < 3 * ESize + USize THEN Malformed
  ELSE LET n == DecLenAt(bs, 3 * ESize)
           o1 == 3 * ESize + USize + n * ESize
       IN IF Len(bs) < o1 + USize THEN Malformed
          ELSE LET m == DecLenAt(bs, o1)
                   o2 == o1 + USize + m
               IN IF Len(bs) # o2 + 2 * ESize THEN Malformed
                  ELSE [ok |-> TRUE,
                        w |-> [s |-> DecFrAt(bs, 0), lim |-> DecFrAt(bs, ESize), mid |-> DecFrAt(bs, 2 * ESize),
                               path |-> [k \in 1..n |-> DecFrAt(bs, 3 * ESize + USize + (k - 1) * ESize)],
                               bits |-> SubSeq(bs, o1 + USize + 1, o2),
                               x |-> DecFrAt(bs, o2), e |-> DecFrAt(bs, o2 + ESize)]]
=============================================================================
