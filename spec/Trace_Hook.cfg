SPECIFICATION Spec
INVARIANT Stat
POSTCONDITION Accepted
CHECK_DEADLOCK FALSE
