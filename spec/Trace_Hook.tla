---------------------------- MODULE Trace_Hook ----------------------------
(***************************************************************************)
(* Judge for call traces written by the library itself (hook H2: one line  *)
(* per outermost mutating call of a tree backend, emitted by the backend   *)
(* after the change: arguments, result, root, leaf count, the touched      *)
(* leaves read back, the empty-position list).  The drivers are whatever   *)
(* ran with the hook on: the repository's own test suite, its relay        *)
(* example, and the harness scenarios.                                     *)
(*                                                                         *)
(* Unlike Trace_Tree (transition-local, the observed state is adopted),    *)
(* this judge carries the MODEL state of every live instance through the   *)
(* whole trace: the unlogged part of the state (all other leaves) is       *)
(* determined by TreeOps, and every logged root must be the ideal root of  *)
(* the model's leaf map (folded through the table of hash facts).          *)
(* An instance whose state cannot be known (a persistent tree loaded from  *)
(* disk, a clone, a non-default initial leaf, a call that deviated) is     *)
(* opaque: its lines are consumed and counted, not judged.                 *)
(***************************************************************************)
EXTENDS TreeStep, Json, IOUtils

Rec == ndJsonDeserialize(IOEnv.TRACE)
Tab == JsonDeserialize(IOEnv.TABLE)
Ctl == JsonDeserialize(IOEnv.CTL)          \* [prop |-> "C06", kf |-> <<names>>]
Prop == Ctl.prop

VARIABLES l,      \* next line of Rec
          m,      \* live tracked instances: id -> [d, st, zs, hk, be]
          n       \* counters [judged, opaque, skipped]
vars == <<l, m, n>>

H2(a, b) ==
  LET row == Tab.H2[a + 1]
      hits == {k \in 1..Len(row) : row[k][1] = b}
  IN IF hits = {} THEN Assert(FALSE, <<"missing H2 entry", a, b>>)
     ELSE row[CHOOSE k \in hits : TRUE][2]

\* the ideal root of a sparse leaf map, through the table of hash facts (ks = the written positions below
\* node (lev, i); splitting them on the way down keeps the cost at |leaves| * depth for batches of thousands)
RECURSIVE SNodeK(_, _, _, _, _, _)
SNodeK(dd, lv, zs, lev, i, ks) ==
  IF ks = {} THEN zs[lev + 1]
  ELSE IF lev = dd THEN lv[i]
  ELSE LET mid == (2 * i + 1) * Pow2(dd - lev - 1)
           lo == {k \in ks : k < mid}
       IN H2(SNodeK(dd, lv, zs, lev + 1, 2 * i, lo), SNodeK(dd, lv, zs, lev + 1, 2 * i + 1, ks \ lo))
SNode(dd, lv, zs, lev, i) == SNodeK(dd, lv, zs, lev, i, DOMAIN lv)

Mutators == {"set", "delete", "append", "range", "override"}
Alphabet ==
  CASE Prop = "C06" -> {"set", "delete", "append", "range"}
    [] Prop = "C07" -> {}                       \* C07 judges the proof queries (below); mutators only move the model
    [] Prop = "C08" -> {"override"}
    [] Prop = "C15" -> Mutators
    [] Prop = "ALL" -> Mutators

Put1(f, k, v) == [x \in (DOMAIN f) \cup {k} |-> IF x = k THEN v ELSE f[x]]
Drop1(f, k) == [x \in (DOMAIN f) \ {k} |-> f[x]]
Bump(c) == [n EXCEPT ![c] = @ + 1]

Posted(e) == "nopost" \notin DOMAIN e

\* ---- observables ----
ReadBackOK(e, dd, post) ==
  \A k \in 1..Len(e.rb) :
    LET i == e.rb[k][1]
        v == e.rb[k][2]
    IN IF i >= Pow2(dd) THEN v = -1 ELSE v = Lf(post, i)

Asc(s) == \A k \in 1..(Len(s) - 1) : s[k] < s[k + 1]
EmptiesOK(e, post) ==
  /\ "empties" \in DOMAIN e =>
       /\ Asc(e.empties)
       /\ SeqSet(e.empties) = Empties(post)
  \* a list too long to be logged comes as its length and both ends: the length is the model's, the head is exactly the model's
  \* empty positions up to the head's last element, the tail exactly those from the tail's first element on
  /\ "empties_n" \in DOMAIN e =>
       \* (never enumerate the empty positions of a large tree: count through the flag set, which holds touched positions only)
       LET hd == e.empties_head
           tl == e.empties_tail
           nx == post.next
           Flagged(lo, hi) == Cardinality({i \in post.fl : lo <= i /\ i <= hi})
           IsEmpty(i) == i >= 0 /\ i < nx /\ i \notin post.fl
       IN /\ Len(hd) > 0 /\ Len(tl) > 0 /\ Asc(hd) /\ Asc(tl)
          /\ e.empties_n = nx - Flagged(0, nx - 1)
          /\ \A k \in 1..Len(hd) : IsEmpty(hd[k])
          /\ \A k \in 1..Len(tl) : IsEmpty(tl[k])
          /\ Len(hd) = (hd[Len(hd)] + 1) - Flagged(0, hd[Len(hd)])          \* as many as there are empty positions up to its last
          /\ Len(tl) = (nx - tl[1]) - Flagged(tl[1], nx - 1)                 \* as many as there are from its first on

StateOK(e, x, post) ==
  /\ Posted(e)
  /\ e.next = post.next
  /\ e.d = x.d
  /\ ReadBackOK(e, x.d, post)
  /\ (x.hk = 1 => e.root = SNode(x.d, post.lv, x.zs, 0, 0))

\* everything the line shows agrees with the specification (then the model state stays known)
FullOK(e, x) ==
  LET r == SpecStep(x.d, x.st, e.op)
      post == After(x.st, r, e.res)
  IN e.res \in r.res /\ StateOK(e, x, post) /\ EmptiesOK(e, post)

\* what the property under decision demands of the line
PropOK(e, x) ==
  LET r == SpecStep(x.d, x.st, e.op)
      post == After(x.st, r, e.res)
  IN CASE Prop \in {"C06", "C08"} -> e.res \in r.res /\ StateOK(e, x, post)
       [] Prop = "C15" -> (e.res \in r.res /\ Posted(e)) => EmptiesOK(e, post)
       [] Prop = "ALL" -> FullOK(e, x)
       [] OTHER -> TRUE

Post(e, x) == After(x.st, SpecStep(x.d, x.st, e.op), e.res)

\* ---- membership-proof queries (read-only), against the IDEAL tree of the model state: every path element is
\* the ideal root of the sibling subtree, the direction bits spell the position, the tree's root is the ideal root
Under(lv, dd, lev, j) == {k \in DOMAIN lv : k \div Pow2(dd - lev) = j}
ProofOK(e, x) ==
  LET i == e.op.i
      dd == x.d
  IN IF i >= Pow2(dd) THEN e.res = "err"
     ELSE /\ e.res = "ok"
          /\ e.len = dd /\ Len(e.sib) = dd /\ Len(e.bits) = dd /\ e.idx = i
          /\ \A k \in 1..dd :
                LET lev == dd - k + 1
                    a == i \div Pow2(dd - lev)
                    sj == IF a % 2 = 0 THEN a + 1 ELSE a - 1
                IN /\ e.bits[k] = a % 2
                   /\ (x.hk = 1 => e.sib[k] = SNodeK(dd, x.st.lv, x.zs, lev, sj, Under(x.st.lv, dd, lev, sj)))
          /\ (x.hk = 1 /\ Posted(e) => e.root = SNode(dd, x.st.lv, x.zs, 0, 0))

\* ---- known finding pm-override-batch on hook lines (the root is not compared here: the facts for
\* the deviant leaf map are not in the table; Trace_Tree compares it on the recorder's traces) ----
PmKF(e, x) ==
  /\ "pm-override-batch" \in SeqSet(Ctl.kf)
  /\ e.be = "pm" /\ e.op.c = "override"
  /\ ((Len(e.op.vs) = 0 /\ Len(e.op.rem) >= 2) \/ (Len(e.op.vs) >= 1 /\ Len(e.op.rem) >= 1))
  /\ LET y == PmOverride(x.d, x.st, e.op)
         asst == St(y.lv, y.next, y.fl)
     IN /\ e.res = y.res
        /\ (Posted(e) =>
              /\ (Prop \in {"C08", "ALL"} => e.next = y.next /\ ReadBackOK(e, x.d, asst))
              /\ EmptiesOK(e, asst))

\* ---- steps ----
More == l <= Len(Rec)
E == Rec[l]
Init == l = 1 /\ m = << >> /\ n = [judged |-> 0, opaque |-> 0, skipped |-> 0, kf |-> 0]

Eof == More /\ E.ev = "eof" /\ m' = << >> /\ l' = l + 1 /\ UNCHANGED n

DropI == More /\ E.ev = "drop" /\ m' = Drop1(m, E.inst) /\ l' = l + 1 /\ UNCHANGED n

\* a new instance: the in-memory backends must come up as the empty tree; the persistent one may have
\* loaded an existing database (then its content is unknown: opaque)
Known0(e) == e.init0 = 1 /\ e.next = 0 /\ (e.hk = 1 => e.root = e.zs[1])
NewOK(e) == e.be \in {"full", "optimal"} /\ e.init0 = 1 => Known0(e)
NewI ==
  /\ More /\ E.ev = "new" /\ NewOK(E)
  /\ m' = IF Known0(E) THEN Put1(Drop1(m, E.inst), E.inst, [d |-> E.d, st |-> Empty, zs |-> E.zs, hk |-> E.hk, be |-> E.be])
          ELSE Drop1(m, E.inst)
  /\ n' = IF Known0(E) THEN n ELSE Bump("opaque")
  /\ l' = l + 1
NewDev ==
  /\ More /\ E.ev = "new" /\ ~NewOK(E)
  /\ PrintT(<<"DEV", l>>) /\ PrintT(<<"WHY", l, <<"a fresh in-memory tree is not the empty tree", E.next, E.root, E.zs[1]>> >>)
  /\ m' = Drop1(m, E.inst) /\ l' = l + 1 /\ UNCHANGED n

IsProof == More /\ E.ev = "proof"
ProofJudged == Prop \in {"C07", "ALL"}
ProofSkip == IsProof /\ (E.inst \notin DOMAIN m \/ ~ProofJudged) /\ l' = l + 1 /\ UNCHANGED <<m, n>>
ProofGood == IsProof /\ E.inst \in DOMAIN m /\ ProofJudged /\ ProofOK(E, m[E.inst]) /\ l' = l + 1 /\ n' = Bump("judged") /\ UNCHANGED m
ProofDev ==
  /\ IsProof /\ E.inst \in DOMAIN m /\ ProofJudged /\ ~ProofOK(E, m[E.inst])
  /\ PrintT(<<"DEV", l>>)
  /\ PrintT(<<"WHY", l, <<"membership proof is not the ideal tree's", E.be, E.op, E.res>> >>)
  /\ l' = l + 1 /\ UNCHANGED <<m, n>>          \* a read: the model state stays known

IsCall == More /\ E.ev \in Mutators
Tracked == E.inst \in DOMAIN m
X == m[E.inst]

\* a line of an instance whose state is not known
Skip == IsCall /\ ~Tracked /\ l' = l + 1 /\ n' = Bump("skipped") /\ UNCHANGED m

Judged == E.ev \in Alphabet

\* judged and conforming; the instance stays tracked only if ALL observables conform (another
\* property's deviation makes the state unknown to this run, silently)
Good ==
  /\ IsCall /\ Tracked /\ Judged /\ PropOK(E, X)
  /\ m' = IF FullOK(E, X) THEN [m EXCEPT ![E.inst].st = Post(E, X)] ELSE Drop1(m, E.inst)
  /\ n' = Bump("judged") /\ l' = l + 1

\* outside this property's alphabet: not judged; tracked on only if it conforms
Pass ==
  /\ IsCall /\ Tracked /\ ~Judged
  /\ m' = IF FullOK(E, X) THEN [m EXCEPT ![E.inst].st = Post(E, X)] ELSE Drop1(m, E.inst)
  /\ UNCHANGED n /\ l' = l + 1

KnownF ==
  /\ IsCall /\ Tracked /\ Judged /\ ~PropOK(E, X) /\ PmKF(E, X)
  /\ PrintT(<<"KF", "pm-override-batch", l>>)
  /\ m' = Drop1(m, E.inst) /\ n' = Bump("kf") /\ l' = l + 1

Why(e, x) ==
  LET r == SpecStep(x.d, x.st, e.op)
      post == After(x.st, r, e.res)
  IN <<e.be, e.op>>
     \o (IF e.res \in r.res THEN <<>> ELSE <<"result", e.res, "allowed", r.res>>)
     \o (IF ~Posted(e) THEN <<"no state after the call">>
         ELSE (IF e.next = post.next THEN <<>> ELSE <<"next", e.next, "expected", post.next>>)
           \o (IF ReadBackOK(e, x.d, post) THEN <<>> ELSE <<"leaves read back", e.rb, "expected from", post.lv>>)
           \o (IF x.hk = 1 /\ e.root # SNode(x.d, post.lv, x.zs, 0, 0) THEN <<"root is not the ideal root of", post.lv>> ELSE <<>>)
           \o (IF EmptiesOK(e, post) THEN <<>>
               ELSE IF "empties" \in DOMAIN e THEN <<"empties", e.empties, "expected", Empties(post)>>
               ELSE <<"empties (long list)", e.empties_n, "expected", post.next - Cardinality({i \in post.fl : i < post.next})>>))

Deviation ==
  /\ IsCall /\ Tracked /\ Judged /\ ~PropOK(E, X) /\ ~PmKF(E, X)
  /\ PrintT(<<"DEV", l>>)
  /\ PrintT(<<"WHY", l, Why(E, X)>>)
  /\ m' = Drop1(m, E.inst) /\ UNCHANGED n /\ l' = l + 1

Next == Eof \/ DropI \/ NewI \/ NewDev \/ Skip \/ Good \/ Pass \/ KnownF \/ Deviation \/ ProofSkip \/ ProofGood \/ ProofDev
Spec == Init /\ [][Next]_vars

Accepted ==
  \/ /\ TLCGet("stats").diameter - 1 = Len(Rec)
  \/ /\ PrintT(<<"REJECT", TLCGet("stats").diameter>>)
     /\ FALSE

\* counters of the last state (printed once, when the whole trace has been consumed)
Stat == (l = Len(Rec) + 1) => PrintT(<<"STAT", n.judged, n.opaque, n.skipped, n.kf>>)
=============================================================================
