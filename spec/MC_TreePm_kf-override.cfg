SPECIFICATION Spec
CONSTANTS
  Depth = 2
  Vals = {0, 1, 2}
  MaxBatch = 3
  Variant = "kf-override"
INVARIANTS Consistent MarkOK ProofOK ResultOK KeysInjective LoadedEqualsLive BatchWriteSetOK
CHECK_DEADLOCK FALSE
