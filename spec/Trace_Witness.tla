---------------------------- MODULE Trace_Witness ----------------------------
(***************************************************************************)
(* Judge for C05.  One line = one assignment of the circuit's inputs with  *)
(* (a) the verdict and complete witness of the REFERENCE circom generator  *)
(*     (rln.wasm, executed by the driver under node's WebAssembly) and     *)
(* (b) the complete witness computed by the graph evaluator, for one or    *)
(*     three insertion orders of the named inputs.                         *)
(* For every assignment the reference accepts, every computed vector must  *)
(* equal the reference vector element for element; the vectors of the      *)
(* different orders are then equal to each other as well.  Assignments the *)
(* reference rejects are outside the property's quantifier.                *)
(***************************************************************************)
EXTENDS Integers, Sequences, TLC, Json, IOUtils
Rec == ndJsonDeserialize(IOEnv.TRACE)
VARIABLES l
More == l <= Len(Rec)
LineOK(e) ==
  (e.ref.res = "ok") =>
     /\ Len(e.code) >= 1
     /\ \A k \in 1..Len(e.code) :
          /\ Len(e.code[k]) = Len(e.ref.witness)
          /\ \A i \in 1..Len(e.ref.witness) : e.code[k][i] = e.ref.witness[i]
Init == l = 1
Good == More /\ LineOK(Rec[l]) /\ l' = l + 1
FirstDiff(e) == LET c == e.code[1] IN
                IF Len(c) # Len(e.ref.witness) THEN <<"length", Len(c), Len(e.ref.witness)>>
                ELSE LET d == {i \in 1..Len(c) : c[i] # e.ref.witness[i]} IN
                     IF d = {} THEN <<"orders differ">> ELSE <<"first differing signal", (CHOOSE i \in d : \A j \in d : i <= j) - 1>>
Deviation == More /\ ~LineOK(Rec[l]) /\ PrintT(<<"DEV", l>>) /\ PrintT(<<"WHY", l, "case", Rec[l].id, FirstDiff(Rec[l])>>) /\ l' = l + 1
Next == Good \/ Deviation
Spec == Init /\ [][Next]_l
Accepted == (TLCGet("stats").diameter - 1 = Len(Rec)) \/ (PrintT(<<"REJECT", TLCGet("stats").diameter>>) /\ FALSE)
=============================================================================
