SPECIFICATION Spec
CONSTANTS
  D = 2
  Vals = {1, 2}
  MaxOps = 2
  MaxBatch = 2
INVARIANTS Durable Reported Dur
CHECK_DEADLOCK FALSE
