INIT Init
NEXT Next
CONSTANT P <- P13
CONSTANT MaxN = 3
