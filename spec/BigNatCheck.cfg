INIT Init
NEXT Next
