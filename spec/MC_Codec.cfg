INIT Init
NEXT Next
CONSTANTS
  LBytes = 1
  ELimbs = 2
  ULimbs = 1
