------------------------------ MODULE ProtoGen ------------------------------
(***************************************************************************)
(* Abstract transition classes of Rln!Prove / Tamper / Verify at the scale *)
(* of the real system (depth 20, BN254): TLC enumerates the products; the  *)
(* driver concretises the labels and takes a seeded pairwise cover or      *)
(* sample.  Labels are strings; their concrete meaning is fixed in         *)
(* lib/proto.py (CLASSES).                                                 *)
(***************************************************************************)
EXTENDS Integers, Sequences, TLC, Json

IdxC == {"0", "1", "255", "2^19-1", "2^19", "2^20-1", "rnd"}
LimC == {"1", "2", "100", "2^16-1", "2^16"}
MidC == {"0", "1", "lim-1"}
FC == {"0", "1", "p-1", "rnd"}
SigC == {"empty", "1B", "135B", "136B", "137B", "10kB"}
EntryC == {"tree", "witness", "vector", "raw"}
HistC == {"set", "append", "range", "batch", "swap-batch", "reopen", "big-batch"}
OthersC == {"none", "sparse"}

ProveCases == [idx : IdxC, lim : LimC, mid : MidC, s : FC, e : FC, sig : SigC, entry : EntryC, hist : HistC, others : OthersC]
\* "mid = 1" needs lim >= 2
ValidProve(c) == ~(c.mid = "1" /\ c.lim = "1")

\* C02: modification x verifier x verifier-side tree/root-set class
FieldC == {"root", "e", "x", "y", "nul"}
HowC == {"inc", "swap", "zero"}
SigModC == {"flip", "trunc", "extend-fix", "extend-nofix", "len+1", "len-1", "len0", "len+2^32", "len+2^63"}
ProofBitC == {"first", "last", "flags", "mid1", "mid2"}
KindC == {"raw", "stateful", "roots"}
\* (the verifier's tree changes through every kind of tree call: single writes, range writes, batch updates)
TreeC == {"same", "other-changed", "member-deleted", "changed-restored", "restarted", "restarted-member-deleted",
          "other-changed-batch", "other-changed-range", "member-deleted-batch", "member-overwritten-range"}
RootsC == {"empty", "cur", "other", "other+cur", "stale", "zero", "zeros", "zero+cur", "straddle1", "straddle8", "straddle16", "straddle31"}
TamperCases ==
  [what : {"none"}, kind : KindC, tree : TreeC, roots : RootsC]
  \cup [what : {"field"}, f : FieldC, how : HowC, kind : KindC]
  \cup [what : {"sig"}, how : SigModC, kind : KindC \ {"raw"}]
  \cup [what : {"proofbit"}, bit : ProofBitC, kind : KindC]

\* C12: which conjunct of Sat fails
UnsatC == {"mid=lim", "mid=lim+1", "mid=2^16", "mid>=2^16,biglim", "lim=mid+2^16+1", "lim=2^17", "lim=0", "mid=p-1",
           "idx=cap", "idx=2^32", "idx=2^63", "path19", "path21", "path0", "bits19", "bit=2", "bit=255",
           "wtrunc1", "wtrunc40", "wappend1", "widxlen+100", "widxlen-1", "widxlen+1", "widxlenmax", "widxlenmax-7", "widxlen2^32", "reqlen0", "reqlen31", "reqlen143", "reqlen-1", "siglen+1", "siglen=2^32",
           "siglen=max", "control"}
UnsatCases == [cls : UnsatC, entry : EntryC]

ASSUME PrintT(<<"PROVE", ToJson({c \in ProveCases : ValidProve(c)})>>)
ASSUME PrintT(<<"TAMPER", ToJson(TamperCases)>>)
ASSUME PrintT(<<"UNSAT", ToJson(UnsatCases)>>)
=============================================================================
