SPECIFICATION Spec
CONSTANTS
  P = 13
  Secrets = {1, 3}
  Limits = {2}
  MaxLimit = 2
  Epochs = {1}
  Xs = {2, 5}
  Mids = {0, 1, 2}
  MaxWire = 2
  MaxTamper = 1
  WithRemove = FALSE
INVARIANTS Completeness Soundness RootSetSoundness Shamir ProverHonest
CHECK_DEADLOCK FALSE
