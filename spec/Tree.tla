-------------------------------- MODULE Tree --------------------------------
(***************************************************************************)
(* The ideal membership tree as a state machine: one action per mutating   *)
(* call of the tree API (ZerokitMerkleTree / RLN tree methods), including  *)
(* the rejected variants.  TLC checks the C06/C07/C08/C15 statements on    *)
(* every reachable state, and (Emit = TRUE) prints every transition as one *)
(* JSON line; those lines are the scenarios replayed into the real tree    *)
(* backends by the harness.                                                *)
(***************************************************************************)
EXTENDS TreeOps, Json

CONSTANTS Depth,      \* tree depth
          Vals,       \* leaf values used by writes (may contain Z: explicit write of the default)
          MaxBatch,   \* longest range / batch written in one call
          MaxRem,     \* largest removal set of a batch
          Ops,        \* the calls enabled in this configuration (subset of the names below)
          Emit,       \* TRUE: print one EDGE line per transition
          HistLen     \* > 0: keep the call history and print it as one BEHAVIOUR line at this length

Cap == Pow2(Depth)
Pos == 0..(Cap - 1)

VARIABLES t,          \* the tree state (TreeOps.St); metadata and persistence live in Storage.tla
          hist        \* call history (only when HistLen > 0; used to hand behaviours to the harness)
vars == <<t, hist>>

Batches == UNION {[1..n -> Vals] : n \in 0..MaxBatch}
RemSets == {r \in SUBSET (0..Cap) : Cardinality(r) <= MaxRem}     \* Cap itself = one out-of-range position

Full(s) == [i \in 1..Cap |-> Lf(s, i - 1)]
Js(s) == [leaves |-> Full(s), next |-> s.next, fl |-> s.fl]

\* One call: op is the request, r its specification; the call reports res and the tree moves on.
Call(op, r) ==
  /\ (HistLen = 0 \/ Len(hist) < HistLen)
  /\ \E res \in r.res :
       /\ t' = After(t, r, res)
       /\ hist' = (IF HistLen > 0 THEN Append(hist, op) ELSE hist)
       /\ (Emit => PrintT(<<"EDGE", ToJson([src |-> Js(t), op |-> op, res |-> res, dst |-> Js(t')])>>))

Set == "set" \in Ops /\ \E i \in 0..Cap, v \in Vals : Call([c |-> "set", i |-> i, v |-> v], SetF(Depth, t, i, v))
Delete == "delete" \in Ops /\ \E i \in 0..Cap : Call([c |-> "delete", i |-> i], DelF(Depth, t, i))
AppendLeaf == "append" \in Ops /\ \E v \in Vals : Call([c |-> "append", v |-> v], AppF(Depth, t, v))
Range == "range" \in Ops /\ \E s \in 0..Cap, vs \in Batches :
           Call([c |-> "range", s |-> s, vs |-> vs], RangeF(Depth, t, s, vs))
Override == "override" \in Ops /\ \E s \in 0..Cap, vs \in Batches, rem \in RemSets :
           Call([c |-> "override", s |-> s, vs |-> vs, rem |-> rem], OvrF(Depth, t, s, vs, rem))
InitLeaves == "init" \in Ops /\ \E vs \in Batches : Call([c |-> "init", vs |-> vs], InitF(Depth, t, vs))

\* simulation mode: one BEHAVIOUR line per simulated behaviour, printed when TLC expands the state that
\* completes it (guards are evaluated only for the state the simulator actually chose)
Done == /\ HistLen > 0 /\ Len(hist) = HistLen
        /\ PrintT(<<"BEHAVIOUR", ToJson(hist)>>)
        /\ UNCHANGED vars

Init == t = Empty /\ hist = <<>>
Next == Set \/ Delete \/ AppendLeaf \/ Range \/ Override \/ InitLeaves \/ Done
Spec == Init /\ [][Next]_vars


-----------------------------------------------------------------------------
\* Invariants

TypeOK ==
  /\ t.next \in 0..Cap
  /\ t.fl \subseteq 0..(t.next - 1)
  /\ DOMAIN t.lv \subseteq t.fl               \* a non-default leaf is a written one, below the mark
  /\ \A i \in DOMAIN t.lv : t.lv[i] # Z

\* C15: the reported empties are exactly the positions below the mark that are not "written last"
EmptiesOK == Empties(t) = (0..(t.next - 1)) \ t.fl /\ Empties(t) \cap DOMAIN t.lv = {}

\* C07 on the ideal tree: completeness, index decoding, binding to the leaf, tamper lemmas
AllVals == Vals \cup {Z}
ProofOK ==
  \A i \in Pos :
    LET pr == Proof(Depth, t, i)
        leaf == <<"L", Lf(t, i)>>
    IN /\ Len(pr) = Depth
       /\ Index(pr, 1) = i
       /\ Fold(leaf, pr, 1) = Root(Depth, t)
       /\ \A v \in AllVals \ {Lf(t, i)} : Fold(<<"L", v>>, pr, 1) # Root(Depth, t)
       /\ \A k \in 1..Depth :
            /\ Fold(leaf, [pr EXCEPT ![k].sib = <<"X">>], 1) # Root(Depth, t)
            /\ LET flipped == [pr EXCEPT ![k].bit = 1 - pr[k].bit]
                   me == Node(Depth, t, Depth - k + 1, Anc(Depth, i, Depth - k + 1))
               IN (Fold(leaf, flipped, 1) = Root(Depth, t)) <=> (me = pr[k].sib)

\* C08 as a theorem instead of a definition: a batch equals its removals (any order; the
\* recursion picks an arbitrary one) followed by the single writes; init = fresh + writes
RECURSIVE DelAll(_, _)
DelAll(s, rem) ==
  IF rem = {} THEN s
  ELSE LET r == CHOOSE x \in rem : TRUE
       IN DelAll((IF r < s.next THEN DelF(Depth, s, r).st ELSE s), rem \ {r})
RECURSIVE SetAll(_, _, _, _)
SetAll(s, st, vs, k) ==
  IF k > Len(vs) THEN s ELSE SetAll(SetF(Depth, s, st + k - 1, vs[k]).st, st, vs, k + 1)

BatchIsSequence ==
  \A s \in 0..Cap, vs \in Batches, rem \in RemSets :
    (s + Len(vs) <= Cap /\ rem \subseteq Pos) =>
       OvrF(Depth, t, s, vs, rem).st = SetAll(DelAll(t, rem), s, vs, 1)

InitIsFreshThenWrite ==
  \A vs \in Batches : Len(vs) <= Cap => InitF(Depth, t, vs).st = SetAll(Empty, 0, vs, 1)

RangeIsSequence ==
  \A s \in 0..Cap, vs \in Batches :
    s + Len(vs) <= Cap => RangeF(Depth, t, s, vs).st = SetAll(t, s, vs, 1)

\* rejected requests change nothing (by construction of After; stated for the record)
RejectUnchanged ==
  /\ \A i \in Cap..(Cap + 1), v \in Vals : SetF(Depth, t, i, v) = R({"err"}, t)
  /\ \A s \in 0..Cap, vs \in Batches : s + Len(vs) > Cap =>
        /\ RangeF(Depth, t, s, vs) = R({"err"}, t)
        /\ \A rem \in RemSets : OvrF(Depth, t, s, vs, rem) = R({"err"}, t)
=============================================================================
