---------------------------- MODULE Trace_Tree ----------------------------
(***************************************************************************)
(* Judge for traces recorded from the real tree backends (full, optimal,   *)
(* persistent; trait level, depth <= 5).  One trace line = one API call    *)
(* with its result and the complete observable state after it.  Every      *)
(* line must be a step of the ideal tree (TreeOps) from the state that was *)
(* observed after the previous line; nothing else is accepted, except the  *)
(* deviations listed as known findings (KF_* below, enabled only by name   *)
(* from /verif/known_findings.json via the control file).                  *)
(*                                                                         *)
(* The property being decided (Ctl.prop) selects which observables are     *)
(* compared; everything else is adopted from the observation, so a defect  *)
(* that belongs to another property cannot raise this property's alarm.    *)
(***************************************************************************)
EXTENDS TreeStep, Json, IOUtils

Rec == ndJsonDeserialize(IOEnv.TRACE)
Tab == JsonDeserialize(IOEnv.TABLE)
Ctl == JsonDeserialize(IOEnv.CTL)          \* [prop |-> "C06", kf |-> <<names>>]
Prop == Ctl.prop
KFOn(name) == name \in SeqSet(Ctl.kf)

VARIABLES l,      \* next line of Rec
          t,      \* tree state adopted after the previous line
          d,      \* depth of the current instance
          used    \* names of the known-finding disjuncts that were needed
vars == <<l, t, d, used>>

\* ---- hash facts (the library's Poseidon on actual values; never conclusions) ----
H2(a, b) ==
  LET row == Tab.H2[a + 1]
      hits == {k \in 1..Len(row) : row[k][1] = b}
  IN IF hits = {} THEN Assert(FALSE, <<"missing H2 entry", a, b>>)
     ELSE row[CHOOSE k \in hits : TRUE][2]

RECURSIVE FoldId(_, _, _, _)
FoldId(acc, sib, bits, k) ==
  IF k > Len(sib) THEN acc
  ELSE FoldId(IF bits[k] = 0 THEN H2(acc, sib[k]) ELSE H2(sib[k], acc), sib, bits, k + 1)

RECURSIVE IndexOf(_, _)
IndexOf(bits, k) == IF k > Len(bits) THEN 0 ELSE bits[k] * Pow2(k - 1) + IndexOf(bits, k + 1)

\* ---- reading an observation ----
\* Two shapes: complete (depth <= 5: every leaf, every subtree root, every proof) and sparse (depth 20:
\* the positions touched so far plus probes, the root, and the default-subtree chain zs).
Broken(o) == "broken" \in DOMAIN o
Sparse(o) == "sparse" \in DOMAIN o
IsInt(x) == x >= 0                          \* the recorder writes -1 where a read failed
Cap(dd) == Pow2(dd)
ObsLeaf(o, i) == o.leaves[i + 1]
AllInt(o, dd) == /\ \A i \in 0..(Cap(dd) - 1) : IsInt(ObsLeaf(o, i))
                 /\ \A lev \in 0..dd : \A i \in 1..Pow2(lev) : IsInt(o.nodes[lev + 1][i])
\* sparse shape: o.tp = watched positions, o.nz = <<position, value>> of the non-default leaves among
\* them (ascending), o.unread = number of watched positions whose read failed
NZPos(o) == {o.nz[k][1] : k \in 1..Len(o.nz)}
NZVal(o, i) == o.nz[CHOOSE k \in 1..Len(o.nz) : o.nz[k][1] = i][2]
SparseLeaf(o, i) == IF i \in NZPos(o) THEN NZVal(o, i) ELSE Z
EmptiesSeen(o) == "empties" \in DOMAIN o
\* the state the next call starts from: what was observed; flags that cannot be observed (sparse
\* observation of a tree with a very high mark) are carried over from the specified post-state
Adopt(o, dd, post) ==
  IF Sparse(o)
  THEN St([i \in NZPos(o) |-> NZVal(o, i)],
          o.next,
          IF EmptiesSeen(o) THEN (0..(o.next - 1)) \ SeqSet(o.empties) ELSE post.fl)
  ELSE St([i \in {j \in 0..(Cap(dd) - 1) : ObsLeaf(o, j) # Z} |-> ObsLeaf(o, i)],
          o.next,
          IF EmptiesSeen(o) THEN (0..(o.next - 1)) \ SeqSet(o.empties) ELSE post.fl)

\* ---- observables per property ----
\* C06 / C08: leaves, high-water mark, every subtree root, root
StateOKSmall(o, dd, s) ==
  /\ AllInt(o, dd)
  /\ o.next = s.next
  /\ o.cap = Cap(dd) /\ o.depth = dd
  /\ \A i \in 0..(Cap(dd) - 1) : ObsLeaf(o, i) = Lf(s, i)
  /\ \A lev \in 0..(dd - 1) : \A i \in 0..(Pow2(lev) - 1) :
        o.nodes[lev + 1][i + 1] = H2(o.nodes[lev + 2][2 * i + 1], o.nodes[lev + 2][2 * i + 2])
  /\ \A i \in 0..(Cap(dd) - 1) : o.nodes[dd + 1][i + 1] = ObsLeaf(o, i)
  /\ o.root = o.nodes[1][1]
  /\ o.get_oob = "err"

\* the ideal root of a sparse leaf map, through the table of hash facts
RECURSIVE SNode(_, _, _, _, _)
SNode(dd, lv, zs, lev, i) ==
  IF \A k \in DOMAIN lv : k \div Pow2(dd - lev) # i THEN zs[lev + 1]
  ELSE IF lev = dd THEN lv[i]
  ELSE H2(SNode(dd, lv, zs, lev + 1, 2 * i), SNode(dd, lv, zs, lev + 1, 2 * i + 1))

StateOKSparse(o, dd, s) ==
  /\ o.next = s.next
  /\ o.depth = dd
  /\ o.unread = 0
  /\ (IF DOMAIN s.lv \subseteq SeqSet(o.tp) THEN TRUE   \* (IF, not \/: TLC expands a disjunction inside an action)
      ELSE Assert(FALSE, <<"recorder did not watch a written position", DOMAIN s.lv>>))
  /\ NZPos(o) = DOMAIN s.lv
  /\ \A k \in 1..Len(o.nz) : o.nz[k][2] = s.lv[o.nz[k][1]]
  /\ o.zs[dd + 1] = Z /\ \A lev \in 0..(dd - 1) : o.zs[lev + 1] = H2(o.zs[lev + 2], o.zs[lev + 2])
  /\ o.root = SNode(dd, s.lv, o.zs, 0, 0)

StateOK(o, dd, s) ==
  /\ ~Broken(o)
  /\ IF Sparse(o) THEN StateOKSparse(o, dd, s) ELSE StateOKSmall(o, dd, s)

\* C15: ascending list of the positions below the tree's own mark whose last operation was not a write
EmptiesOK(o, s) ==
  /\ ~Broken(o)
  /\ "empties_err" \notin DOMAIN o
  /\ ("empties" \in DOMAIN o =>
        /\ \A k \in 1..(Len(o.empties) - 1) : o.empties[k] < o.empties[k + 1]
        /\ SeqSet(o.empties) = {i \in 0..(o.next - 1) : i \notin s.fl})

Same(o1, o2) ==
  /\ o1.next = o2.next /\ o1.root = o2.root
  /\ ("empties" \in DOMAIN o1 /\ "empties" \in DOMAIN o2 => o1.empties = o2.empties)
  /\ IF Sparse(o1) THEN o1.nz = o2.nz
     ELSE o1.leaves = o2.leaves /\ o1.nodes = o2.nodes

\* C07: proofs against the tree's OWN observed values
LeafAt(o, i) == IF Sparse(o) THEN SparseLeaf(o, i) ELSE ObsLeaf(o, i)
ProofOK(o, dd, p) ==
  LET i == p.i IN
  /\ p.res = "ok"                                   \* "malformed": exported bytes are not vec_fr ++ vec_u8
  /\ p.len = dd /\ Len(p.sib) = dd /\ Len(p.bits) = dd
  /\ \A k \in 1..dd : p.bits[k] \in {0, 1}
  /\ IndexOf(p.bits, 1) = i
  /\ ("idx" \in DOMAIN p => p.idx = i)
  /\ (~Sparse(o) =>
        \A k \in 1..dd :
          LET lev == dd - k + 1
              a == i \div Pow2(dd - lev)
          IN p.sib[k] = o.nodes[lev + 1][(IF a % 2 = 0 THEN a + 1 ELSE a - 1) + 1])
  /\ FoldId(LeafAt(o, i), p.sib, p.bits, 1) = o.root
  /\ ("cr" \in DOMAIN p => p.cr = o.root)
  /\ ("ok" \in DOMAIN p => p.ok = "true")
  \* the same proof under another leaf value: accepted iff it really folds to the root (never, for
  \* a collision-free hash); "err" counts as not accepted
  /\ ("alt" \in DOMAIN p =>
        /\ (p.alt.v = "true") <=> (FoldId(p.alt.leaf, p.sib, p.bits, 1) = o.root)
        /\ FoldId(p.alt.leaf, p.sib, p.bits, 1) # o.root)
  /\ ("altleaf" \in DOMAIN p => FoldId(p.altleaf, p.sib, p.bits, 1) # o.root)
  /\ ("tamper" \in DOMAIN p =>
        \A j \in 1..Len(p.tamper) :
          LET x == p.tamper[j]
              sib2 == IF x.what = "sib" THEN [p.sib EXCEPT ![x.k] = x.sib] ELSE p.sib
              bits2 == IF x.what = "bit" THEN [p.bits EXCEPT ![x.k] = 1 - p.bits[x.k]] ELSE p.bits
              folds == FoldId(ObsLeaf(o, i), sib2, bits2, 1) = o.root
              lev == dd - x.k + 1
              me == o.nodes[lev + 1][(i \div Pow2(dd - lev)) + 1]
          IN /\ (x.v = "true") <=> folds
             /\ (x.what = "sib" => ~folds)
             /\ (x.what = "bit" => (folds <=> me = p.sib[x.k])))

ProofsOK(o, dd) ==
  /\ ~Broken(o)
  /\ IF Sparse(o)
     THEN \A k \in 1..Len(o.proofs) : ProofOK(o, dd, o.proofs[k])
     ELSE /\ AllInt(o, dd)
          /\ Len(o.proofs) = Cap(dd)
          /\ \A i \in 0..(Cap(dd) - 1) : o.proofs[i + 1].i = i /\ ProofOK(o, dd, o.proofs[i + 1])
  /\ ("proof_oob" \in DOMAIN o => o.proof_oob = "err")

\* ---- which calls a property judges ----
Mutators == {"set", "delete", "append", "range", "override", "init"}
Alphabet ==
  CASE Prop = "C06" -> {"set", "delete", "append", "range"}
    [] Prop = "C08" -> {"override", "init"}
    [] Prop = "C15" -> Mutators
    [] Prop = "C07" -> Mutators \cup {"set_meta", "compute_root"}
    [] Prop = "ALL" -> Mutators

Judged(e) == e.op.c \in Alphabet

\* the expected transition for line e from the adopted pre-state
Expected(e) == SpecStep(d, t, e.op)

Conforms(e, prev) ==
  LET r == Expected(e)
      post == After(t, r, e.res)
  IN CASE Prop = "C06" -> e.res \in r.res /\ StateOK(e.obs, d, post)
       [] Prop = "C08" -> /\ e.res \in r.res /\ StateOK(e.obs, d, post)
                          /\ (e.res = "err" => Same(e.obs, prev))
       [] Prop = "C15" -> \* a result outside the specification is not C15's business: adopt
                          (e.res \in r.res) => EmptiesOK(e.obs, post)
       [] Prop = "C07" -> ProofsOK(e.obs, d)
       [] Prop = "ALL" -> /\ e.res \in r.res /\ StateOK(e.obs, d, post) /\ EmptiesOK(e.obs, post)
                          /\ ProofsOK(e.obs, d) /\ (e.res = "err" => Same(e.obs, prev))

\* ---- steps ----
More == l <= Len(Rec)
Init == l = 1 /\ t = Empty /\ d = 0 /\ used = {}

PrevObs == Rec[l - 1].obs          \* every op line is preceded by a reset or op line of the same instance

\* a fresh instance must be the empty tree (every property looks at its own observables)
ResetOK(e) ==
  /\ e.res = "ok"
  /\ CASE Prop \in {"C06", "C08"} -> StateOK(e.obs, e.d, Empty)
       [] Prop = "C15" -> EmptiesOK(e.obs, Empty)
       [] Prop = "C07" -> ProofsOK(e.obs, e.d)
       [] Prop = "ALL" -> StateOK(e.obs, e.d, Empty) /\ EmptiesOK(e.obs, Empty) /\ ProofsOK(e.obs, e.d)

LineOK(e) ==
  IF e.t = "reset" THEN ResetOK(e)
  ELSE IF Judged(e) THEN Conforms(e, PrevObs)
  ELSE TRUE                         \* a call outside this property's alphabet is not judged

\* after every line the state is the observed one (identical to the specified one when LineOK)
Advance(e) ==
  /\ d' = (IF e.t = "reset" THEN e.d ELSE d)
  /\ t' = (IF e.t = "reset" THEN Empty
           ELSE IF Broken(e.obs) THEN t
           ELSE Adopt(e.obs, d, After(t, Expected(e), e.res)))
  /\ l' = l + 1

Good == More /\ LineOK(Rec[l]) /\ Advance(Rec[l]) /\ UNCHANGED used

-----------------------------------------------------------------------------
\* Known findings: an exact input shape plus the exact deviant outcome (a transcription of what
\* the code does instead).  Enabled only by name through the control file.  Anything that is
\* neither a specified step nor a listed deviation is a DEV line = a violation.
\* --- KF "pm-override-batch": rln::pm_tree_adapter::PmTree::override_range, transcribed ------------
\* (the repository's own suite pins part of this behaviour, so it cannot be repaired with the
\* suite unedited).  idx = removal list sorted ascending (duplicates kept), vs = leaves.
PmOverrideMatches(e) ==
  /\ e.be = "pm" /\ e.op.c = "override"
  /\ ((Len(e.op.vs) = 0 /\ Len(e.op.rem) >= 2) \/ (Len(e.op.vs) >= 1 /\ Len(e.op.rem) >= 1))
  /\ ~Broken(e.obs)
  /\ LET x == PmOverride(d, t, e.op)
         o == e.obs
     IN
       /\ e.res = x.res
       /\ (Prop \in {"C08", "ALL"} =>
             /\ o.next = x.next
             /\ (Sparse(o) =>
                   /\ DOMAIN x.lv \subseteq SeqSet(o.tp) /\ o.unread = 0
                   /\ NZPos(o) = DOMAIN x.lv /\ \A k \in 1..Len(o.nz) : o.nz[k][2] = x.lv[o.nz[k][1]]
                   /\ o.root = SNode(d, x.lv, o.zs, 0, 0))
             /\ (~Sparse(o) => \A i \in 0..(Cap(d) - 1) : ObsLeaf(o, i) = (IF i \in DOMAIN x.lv THEN x.lv[i] ELSE Z))
             /\ (~Sparse(o) => \A lev \in 0..(d - 1) : \A i \in 0..(Pow2(lev) - 1) :
                   o.nodes[lev + 1][i + 1] = H2(o.nodes[lev + 2][2 * i + 1], o.nodes[lev + 2][2 * i + 2])))
       /\ (Prop \in {"C08", "C15", "ALL"} /\ EmptiesSeen(o) =>
             SeqSet(o.empties) = {i \in 0..(o.next - 1) : i \notin x.fl})

KFPred(name, e) ==
  CASE name = "pm-override-batch" -> PmOverrideMatches(e)
    [] OTHER -> FALSE

KFMatches(e) == IF e.t = "reset" THEN {} ELSE {name \in SeqSet(Ctl.kf) : KFPred(name, e)}

Known ==
  /\ More /\ ~LineOK(Rec[l]) /\ KFMatches(Rec[l]) # {}
  /\ PrintT(<<"KF", CHOOSE n \in KFMatches(Rec[l]) : TRUE, l>>)
  /\ used' = used \cup KFMatches(Rec[l])
  /\ Advance(Rec[l])

\* diagnosis printed with a deviation: which comparison failed (for the reader; not part of the verdict)
Why(e) ==
  IF e.t = "reset" THEN <<"reset">>
  ELSE IF Broken(e.obs) THEN <<"observation crashed">>
  ELSE LET r == Expected(e)
           post == After(t, r, e.res)
           o == e.obs
       IN (IF e.res \in r.res THEN <<>> ELSE <<"result", e.res, "allowed", r.res>>)
          \o (IF o.next = post.next THEN <<>> ELSE <<"next", o.next, "expected", post.next>>)
          \o (IF Sparse(o) THEN
                (IF NZPos(o) = DOMAIN post.lv /\ \A k \in 1..Len(o.nz) : o.nz[k][2] = post.lv[o.nz[k][1]] THEN <<>>
                 ELSE <<"leaves", o.nz, "expected", post.lv>>)
              ELSE
                (IF \A i \in 0..(Cap(d) - 1) : ObsLeaf(o, i) = Lf(post, i) THEN <<>>
                 ELSE <<"leaves", o.leaves, "expected", [i \in 1..Cap(d) |-> Lf(post, i - 1)]>>)
                \o (IF AllInt(o, d) /\ \A lev \in 0..(d - 1) : \A i \in 0..(Pow2(lev) - 1) :
                      o.nodes[lev + 1][i + 1] = H2(o.nodes[lev + 2][2 * i + 1], o.nodes[lev + 2][2 * i + 2])
                    THEN <<>> ELSE <<"an inner node is not the hash of its children">>))
          \o (IF ~EmptiesSeen(o) \/ SeqSet(o.empties) = {i \in 0..(o.next - 1) : i \notin post.fl} THEN <<>>
              ELSE <<"empties", o.empties, "expected flags", post.fl>>)
          \o (IF e.res = "err" /\ ~Same(o, PrevObs) THEN <<"rejected call changed the state">> ELSE <<>>)

Deviation ==
  /\ More /\ ~LineOK(Rec[l]) /\ KFMatches(Rec[l]) = {}
  /\ PrintT(<<"DEV", l>>)                       \* one short line per deviation: this is what the driver counts
  /\ PrintT(<<"WHY", l, Why(Rec[l])>>)
  /\ Advance(Rec[l]) /\ UNCHANGED used

Next == Good \/ Known \/ Deviation
Spec == Init /\ [][Next]_vars

\* acceptance: every line consumed.  Otherwise print where the judge stopped.
Accepted ==
  \/ TLCGet("stats").diameter - 1 = Len(Rec)
  \/ /\ PrintT(<<"REJECT", TLCGet("stats").diameter>>)
     /\ FALSE
=============================================================================
