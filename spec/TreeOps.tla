------------------------------ MODULE TreeOps ------------------------------
(***************************************************************************)
(* Functional core of the ideal membership tree (no variables, no          *)
(* constants).  Shared by the state machine Tree.tla (model checking) and  *)
(* by the judges Trace_Tree.tla / Trace_Storage.tla (trace validation),    *)
(* so that there is a single definition of what every operation means.     *)
(*                                                                         *)
(* A tree state is a record                                                *)
(*   [lv   : sparse map position -> non-default leaf value,                *)
(*    next : high-water mark (number of positions ever covered),           *)
(*    fl   : set of positions whose LAST operation was a write]            *)
(* The default leaf is Z = 0; lv never stores Z (canonical form).          *)
(***************************************************************************)
EXTENDS Integers, Sequences, FiniteSets, TLC

Z == 0
Max(a, b) == IF a > b THEN a ELSE b
Min(a, b) == IF a < b THEN a ELSE b
SeqSet(s) == {s[k] : k \in 1..Len(s)}
Pow2(n) == 2^n

St(lv, n, f) == [lv |-> lv, next |-> n, fl |-> f]
Empty == St(<< >>, 0, {})

Lf(s, i) == IF i \in DOMAIN s.lv THEN s.lv[i] ELSE Z

\* sparse map update, canonical (no Z entries)
Put(m, i, v) ==
  IF v = Z THEN [k \in (DOMAIN m) \ {i} |-> m[k]]
  ELSE [k \in (DOMAIN m) \cup {i} |-> IF k = i THEN v ELSE m[k]]

Rng(s, n) == s..(s + n - 1)                 \* positions written by a range of n leaves at s

\* ---- the operations: each returns [res |-> set of allowed results, st |-> post state] ----
\* Reading: the call must report one of res; if it reports "ok" the state becomes st, if it
\* reports "err" the state is unchanged (see After).
R(res, st) == [res |-> res, st |-> st]

SetF(d, s, i, v) ==
  IF i < Pow2(d)
  THEN R({"ok"}, St(Put(s.lv, i, v), Max(s.next, i + 1), s.fl \cup {i}))
  ELSE R({"err"}, s)

\* a deletion at or beyond the high-water mark changes nothing; the backends legitimately
\* differ in whether they call that a success (full/optimal) or an error (persistent)
DelF(d, s, i) ==
  IF i < s.next
  THEN R({"ok"}, St(Put(s.lv, i, Z), s.next, s.fl \ {i}))
  ELSE R({"ok", "err"}, s)

AppF(d, s, v) ==
  IF s.next < Pow2(d) THEN SetF(d, s, s.next, v) ELSE R({"err"}, s)

RangeLv(lv, st, vs, rem) ==
  LET n == Len(vs)
      keep == {k \in DOMAIN lv : k \notin rem /\ k \notin Rng(st, n)}
      wr == {k \in Rng(st, n) : vs[k - st + 1] # Z}
  IN [k \in keep \cup wr |-> IF k \in wr THEN vs[k - st + 1] ELSE lv[k]]

\* write_range(start, vs): the n leaves go to start..start+n-1; an empty write changes nothing
RangeF(d, s, st, vs) ==
  LET n == Len(vs) IN
  IF st + n > Pow2(d) THEN R({"err"}, s)
  ELSE IF n = 0 THEN R({"ok", "err"}, s)                        \* nothing to write: reported either way
  ELSE R({"ok"}, St(RangeLv(s.lv, st, vs, {}), Max(s.next, st + n), s.fl \cup Rng(st, n)))

\* batch update: reset every position of rem to the default leaf, then write vs at st.
\* Rejected (state unchanged) when the range does not fit.  "Nothing to do" (no leaves, and no
\* removal that changes anything) may be reported either way.  Removal positions at or above the capacity are
\* outside the tree: the request is either rejected as a whole or applied ignoring them.
OvrF(d, s, st, vs, rem) ==
  LET n == Len(vs)
      cap == Pow2(d)
      inrem == {r \in rem : r < cap}
      post == St(RangeLv(s.lv, st, vs, inrem),
                 (IF n = 0 THEN s.next ELSE Max(s.next, st + n)),
                 (s.fl \ inrem) \cup Rng(st, n))
  IN IF st + n > cap THEN R({"err"}, s)
     ELSE IF n = 0 /\ post = s THEN R({"ok", "err"}, s)        \* nothing to do (no leaves; removals, if any, of untouched positions)
     ELSE IF inrem # rem THEN R({"ok", "err"}, post)
     ELSE R({"ok"}, post)

\* batch initialisation = fresh tree, then the write at 0
InitF(d, s, vs) ==
  IF Len(vs) > Pow2(d) THEN R({"err"}, s) ELSE RangeF(d, Empty, 0, vs)

After(s, r, res) == IF res = "ok" THEN r.st ELSE s

\* empty positions as they must be reported
Empties(s) == {i \in 0..(s.next - 1) : i \notin s.fl}

\* ---- the ideal hash tree over the free binary constructor ----
RECURSIVE ZNode(_, _)
ZNode(d, l) == IF l = d THEN <<"L", Z>> ELSE <<"H", ZNode(d, l + 1), ZNode(d, l + 1)>>

RECURSIVE Node(_, _, _, _)
Node(d, s, l, i) ==
  IF l = d THEN <<"L", Lf(s, i)>>
  ELSE <<"H", Node(d, s, l + 1, 2 * i), Node(d, s, l + 1, 2 * i + 1)>>
Root(d, s) == Node(d, s, 0, 0)

Anc(d, i, l) == i \div Pow2(d - l)          \* index of position i's ancestor at level l
\* membership proof of position i, bottom-up: [sib, bit]; bit = 0 <=> the node is a left child
Proof(d, s, i) ==
  [k \in 1..d |-> LET l == d - k + 1
                      a == Anc(d, i, l)
                  IN [sib |-> Node(d, s, l, IF a % 2 = 0 THEN a + 1 ELSE a - 1), bit |-> a % 2]]

RECURSIVE Fold(_, _, _)
Fold(acc, pr, k) ==
  IF k > Len(pr) THEN acc
  ELSE Fold(IF pr[k].bit = 0 THEN <<"H", acc, pr[k].sib>> ELSE <<"H", pr[k].sib, acc>>, pr, k + 1)

RECURSIVE Index(_, _)
Index(pr, k) == IF k > Len(pr) THEN 0 ELSE pr[k].bit * Pow2(k - 1) + Index(pr, k + 1)
=============================================================================
