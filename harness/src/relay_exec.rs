// Relay.tla replay: behaviours of the relay design driven through the public RLN API of one instance
// (tree updates, generate_rln_proof, verify_with_roots on the validator's window, recover_id_secret).
// The harness decides nothing: it records what the library returned, values as interned ids.
use crate::intern::Interner;
use crate::rln_exec::{dec_fr, enc_fr, new_rln};
use crate::util::*;
use rln::circuit::Fr;
use rln::hashers::{hash_to_field, poseidon_hash};
use rln::public::RLN;
use serde_json::{json, Value};
use std::io::Cursor;
use std::panic::AssertUnwindSafe;

fn root_of(r: &RLN) -> Option<Fr> {
    let mut o = Vec::new();
    r.get_root(&mut o).ok()?;
    dec_fr(&o)
}
fn secret_of(m: u64, salt: u64) -> Fr {
    poseidon_hash(&[Fr::from(7000 + m), Fr::from(salt)])
}
fn epoch_of(e: u64) -> Fr {
    hash_to_field(format!("epoch-{e}").as_bytes())
}
fn signal_bytes(s: u64) -> Vec<u8> {
    format!("signal number {s}").into_bytes()
}
fn res_of(r: &Result<color_eyre::Result<()>, String>) -> &'static str {
    match r {
        Ok(Ok(())) => "ok",
        Ok(Err(_)) => "err",
        Err(_) => "panic",
    }
}
fn idv(it: &mut Interner, v: Option<Fr>) -> Value {
    match v {
        Some(v) => json!(it.id(&v)),
        None => json!(-1),
    }
}

pub fn run(scenario: &[Value], it: &mut Interner, out: &mut Vec<Value>) {
    let mut rln: Option<RLN> = None;
    let mut roots: Vec<Option<Fr>> = Vec::new(); // root after the k-th tree change (0 = fresh instance)
    let mut msgs: Vec<Option<Vec<u8>>> = Vec::new(); // message k (1-based in the scenario), with signal attached
    let mut limit = Fr::from(1u64);
    let mut pos: Vec<u64> = Vec::new();
    let mut salt = 0u64;
    for (k, op) in scenario.iter().enumerate() {
        let c = op["c"].as_str().unwrap();
        let mut ev = json!({"t": c, "k": k});
        if c == "reset" {
            drop(rln.take());
            roots.clear();
            msgs.clear();
            limit = Fr::from(op["limit"].as_u64().unwrap());
            pos = op["pos"].as_array().unwrap().iter().map(|x| x.as_u64().unwrap()).collect();
            salt = op.get("salt").and_then(|x| x.as_u64()).unwrap_or(0);
            match catch(AssertUnwindSafe(|| new_rln(20, &Value::Null))) {
                Ok(Ok(r)) => {
                    let rt = root_of(&r);
                    ev["res"] = json!("ok");
                    ev["root"] = idv(it, rt);
                    roots.push(rt);
                    rln = Some(r);
                }
                _ => {
                    ev["res"] = json!("err");
                    ev["root"] = json!(-1);
                }
            }
            out.push(ev);
            continue;
        }
        let Some(r) = rln.as_mut() else {
            ev["res"] = json!("noinstance");
            out.push(ev);
            continue;
        };
        match c {
            "reg" | "wd" => {
                let m = op["m"].as_u64().unwrap();
                let p = pos[(m - 1) as usize] as usize;
                let s = secret_of(m, salt);
                let res = if c == "reg" {
                    let rc = poseidon_hash(&[poseidon_hash(&[s]), limit]);
                    catch(AssertUnwindSafe(|| r.set_leaf(p, Cursor::new(enc_fr(&rc)))))
                } else {
                    catch(AssertUnwindSafe(|| r.delete_leaf(p)))
                };
                let rt = root_of(r);
                roots.push(rt);
                ev["m"] = json!(m);
                ev["res"] = json!(res_of(&res));
                ev["root"] = idv(it, rt);
                ev["sid"] = json!(it.id(&s));
            }
            "pub" => {
                let m = op["m"].as_u64().unwrap();
                let (e, mid, sg) = (op["e"].as_u64().unwrap(), op["mid"].as_u64().unwrap(), op["sig"].as_u64().unwrap());
                let s = secret_of(m, salt);
                let sig = signal_bytes(sg);
                let mut req = enc_fr(&s);
                req.extend(pos[(m - 1) as usize].to_le_bytes());
                req.extend(enc_fr(&limit));
                req.extend(enc_fr(&Fr::from(mid)));
                req.extend(enc_fr(&epoch_of(e)));
                req.extend((sig.len() as u64).to_le_bytes());
                req.extend(&sig);
                let mut o = Vec::new();
                let res = catch(AssertUnwindSafe(|| r.generate_rln_proof(Cursor::new(req), &mut o)));
                ev["m"] = json!(m);
                ev["e"] = json!(e);
                ev["mid"] = json!(mid);
                ev["sig"] = json!(sg);
                let ok = matches!(res, Ok(Ok(()))) && o.len() == 288;
                ev["res"] = json!(if ok { "ok" } else { res_of(&res).replace("ok", "err").leak() as &str });
                for (j, n) in ["root", "eid", "x", "y", "nul"].iter().enumerate() {
                    ev[*n] = if ok { idv(it, dec_fr(&o[128 + 32 * j..160 + 32 * j])) } else { json!(-1) };
                }
                if op.get("counts").and_then(|x| x.as_bool()).unwrap_or(true) {
                    // (a request the design rejects takes no slot on the wire)
                    if ok {
                        let mut b = o.clone();
                        b.extend((sig.len() as u64).to_le_bytes());
                        b.extend(&sig);
                        msgs.push(Some(b));
                    } else {
                        msgs.push(None);
                    }
                }
            }
            "val" => {
                let i = op["i"].as_u64().unwrap() as usize;
                let w: Vec<Option<Fr>> = op["window"].as_array().unwrap().iter().map(|v| roots.get(v.as_u64().unwrap() as usize).cloned().flatten()).collect();
                ev["i"] = json!(i);
                ev["window"] = json!(w.iter().map(|v| idv(it, *v)).collect::<Vec<_>>());
                match msgs.get(i - 1).cloned().flatten() {
                    None => ev["res"] = json!("nomsg"),
                    Some(b) => {
                        let rb: Vec<u8> = w.iter().flat_map(|v| enc_fr(&v.unwrap_or(Fr::from(0u64)))).collect();
                        ev["res"] = match catch(AssertUnwindSafe(|| r.verify_with_roots(Cursor::new(b.clone()), Cursor::new(rb.clone())))) {
                            Ok(Ok(true)) => json!("true"),
                            Ok(Ok(false)) => json!("false"),
                            Ok(Err(_)) => json!("err"),
                            Err(_) => json!("panic"),
                        };
                    }
                }
            }
            "slash" => {
                let (i, j) = (op["i"].as_u64().unwrap() as usize, op["j"].as_u64().unwrap() as usize);
                let m = op["m"].as_u64().unwrap();
                ev["i"] = json!(i);
                ev["j"] = json!(j);
                ev["secret"] = json!(-1);
                ev["res"] = json!("err");
                if let (Some(Some(a)), Some(Some(b))) = (msgs.get(j - 1), msgs.get(i - 1)) {
                    let mut o = Vec::new();
                    let res = catch(AssertUnwindSafe(|| r.recover_id_secret(Cursor::new(a.clone()), Cursor::new(b.clone()), &mut o)));
                    ev["res"] = json!(res_of(&res));
                    if matches!(res, Ok(Ok(()))) {
                        ev["secret"] = idv(it, dec_fr(&o));
                    }
                }
                let del = op["del"].as_bool().unwrap();
                ev["deleted"] = json!(del);
                ev["delres"] = json!("-");
                ev["root"] = json!(-1);
                if del {
                    let res = catch(AssertUnwindSafe(|| r.delete_leaf(pos[(m - 1) as usize] as usize)));
                    let rt = root_of(r);
                    roots.push(rt);
                    ev["delres"] = json!(res_of(&res));
                    ev["root"] = idv(it, rt);
                }
            }
            x => panic!("unknown relay op {x}"),
        }
        out.push(ev);
    }
}
