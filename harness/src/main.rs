// zkexec: executes scenarios on the real zerokit code and records traces for the TLA+ judges.
mod cfg_exec;
#[cfg(not(feature = "stateless"))]
mod conc_exec;
mod intern;
#[cfg(not(feature = "stateless"))]
mod hook_exec;
#[cfg(not(feature = "stateless"))]
mod ffi_exec;
#[cfg(not(feature = "stateless"))]
mod hash_exec;
#[cfg(not(feature = "stateless"))]
mod misc_exec;
#[cfg(not(feature = "stateless"))]
mod ops_exec;
#[cfg(not(feature = "stateless"))]
mod proto_exec;
#[cfg(not(feature = "stateless"))]
mod relay_exec;
#[cfg(not(feature = "stateless"))]
mod rln_exec;
#[cfg(all(feature = "pmtree", not(feature = "stateless")))]
mod storage_exec;
#[cfg(all(feature = "pmtree", not(feature = "stateless")))]
mod pm_exec;
mod tree_exec;
mod util;

/// the tree backend the rln crate selects in this build
#[cfg(feature = "fullmerkletree")]
pub const BACKEND: &str = "full";
#[cfg(all(feature = "pmtree", not(feature = "fullmerkletree")))]
pub const BACKEND: &str = "pm";
#[cfg(all(not(feature = "pmtree"), not(feature = "fullmerkletree")))]
pub const BACKEND: &str = "optimal";

use intern::Interner;
use util::*;

fn main() {
    let args: Vec<String> = std::env::args().collect();
    if args.len() < 2 {
        eprintln!("usage: zkexec <cmd> ...");
        std::process::exit(2);
    }
    quiet_panics();
    match args[1].as_str() {
        "tree" => cmd_tree(&args),
        #[cfg(not(feature = "stateless"))]
        "hookfacts" => hook_exec::run(arg(&args, "--in").expect("--in"), arg(&args, "--out").expect("--out")),
        #[cfg(not(feature = "stateless"))]
        "hookreplay" => hook_exec::replay(arg(&args, "--events").expect("--events")),
        "cfgrun" => cmd_cfgrun(&args),
        #[cfg(not(feature = "stateless"))]
        "witness" => {
            let (mut cases, mut out) = (Vec::new(), Vec::new());
            ops_exec::run_witness(arg(&args, "--seed").unwrap_or("1").parse().unwrap(), arg(&args, "--count").unwrap_or("40").parse().unwrap(), &mut cases, &mut out);
            write_ndjson(arg(&args, "--cases").expect("--cases"), &cases);
            write_ndjson(arg(&args, "--out").expect("--out"), &out);
        }
        #[cfg(not(feature = "stateless"))]
        "bundled" => {
            let mut out = Vec::new();
            ops_exec::run_bundled(arg(&args, "--seed").unwrap_or("1").parse().unwrap(), &mut out);
            write_ndjson(arg(&args, "--out").expect("--out"), &out);
        }
        #[cfg(not(feature = "stateless"))]
        "hashes" => {
            let mut out = Vec::new();
            hash_exec::run(arg(&args, "--seed").unwrap_or("1").parse().unwrap(), arg(&args, "--consts").expect("--consts"),
                           arg(&args, "--tier") == Some("thorough"), &mut out);
            write_ndjson(arg(&args, "--out").expect("--out"), &out);
        }
        #[cfg(all(feature = "pmtree", not(feature = "stateless")))]
        "pmnodes" => {
            let mut it = intern::Interner::new();
            let mut out = Vec::new();
            pm_exec::run(arg(&args, "--seed").unwrap_or("1").parse().unwrap(), arg(&args, "--depth").unwrap_or("2").parse().unwrap(),
                         arg(&args, "--count").unwrap_or("20").parse().unwrap(), arg(&args, "--len").unwrap_or("25").parse().unwrap(), &mut out, &mut it);
            write_ndjson(arg(&args, "--out").expect("--out"), &out);
            write_json(arg(&args, "--table").expect("--table"), &it.tables());
        }
        #[cfg(not(feature = "stateless"))]
        "poseidon-consts" => {
            std::fs::write(arg(&args, "--out").expect("--out"), serde_json::to_string(&hash_exec::dump_consts()).unwrap()).unwrap();
        }
        #[cfg(not(feature = "stateless"))]
        "graphs" => {
            let mut out = Vec::new();
            ops_exec::run_graphs(arg(&args, "--seed").unwrap_or("1").parse().unwrap(), arg(&args, "--count").unwrap_or("150").parse().unwrap(), &mut out);
            write_ndjson(arg(&args, "--out").expect("--out"), &out);
        }
        #[cfg(not(feature = "stateless"))]
        "ops" => {
            let mut out = Vec::new();
            ops_exec::run_ops(arg(&args, "--seed").unwrap_or("1").parse().unwrap(), arg(&args, "--tier") == Some("thorough"), &mut out);
            write_ndjson(arg(&args, "--out").expect("--out"), &out);
        }
        #[cfg(not(feature = "stateless"))]
        "conc" => {
            let mut out = Vec::new();
            let seed: u64 = arg(&args, "--seed").unwrap_or("1").parse().unwrap();
            match arg(&args, "--mode").expect("--mode") {
                "pool" => conc_exec::pool(seed, arg(&args, "--msg-in"), arg(&args, "--msg-out"), &mut out),
                "shared" => conc_exec::shared(seed, arg(&args, "--threads").unwrap_or("16").parse().unwrap(),
                                              arg(&args, "--calls").unwrap_or("50").parse().unwrap(), &mut out),
                #[cfg(feature = "pmtree")]
                "reopen" => {
                    conc_exec::reopen(arg(&args, "--dir").expect("--dir"), arg(&args, "--n").unwrap_or("20").parse().unwrap(), &mut out);
                    conc_exec::regeometry(arg(&args, "--dir").expect("--dir"), &mut out);
                    conc_exec::recreate_shapes(arg(&args, "--dir").expect("--dir"), arg(&args, "--n").unwrap_or("20").parse().unwrap(), &mut out);
                }
                m => panic!("unknown mode {m}"),
            }
            write_ndjson(arg(&args, "--out").expect("--out"), &out);
        }
        #[cfg(not(feature = "stateless"))]
        "rln" => cmd_rln(&args),
        #[cfg(not(feature = "stateless"))]
        "proto" => cmd_proto(&args),
        #[cfg(not(feature = "stateless"))]
        "relay" => {
            let scenario = read_ndjson(arg(&args, "--scenario").expect("--scenario"));
            let mut it = Interner::new();
            let mut out = Vec::new();
            relay_exec::run(&scenario, &mut it, &mut out);
            write_ndjson(arg(&args, "--out").expect("--out"), &out);
        }
        #[cfg(not(feature = "stateless"))]
        "ffi-child" => {
            let scenario = read_ndjson(arg(&args, "--scenario").expect("--scenario"));
            ffi_exec::run_child(&scenario, arg(&args, "--out").expect("--out"));
        }
        #[cfg(not(feature = "stateless"))]
        "ffi" => cmd_ffi(&args),
        #[cfg(not(feature = "stateless"))]
        "codec" => {
            let mut out = Vec::new();
            misc_exec::run_codec(arg(&args, "--seed").unwrap_or("1").parse().unwrap(), arg(&args, "--count").unwrap_or("1200").parse().unwrap(), &mut out);
            misc_exec::run_messages(arg(&args, "--seed").unwrap_or("1").parse().unwrap(), &mut out);
            write_ndjson(arg(&args, "--out").expect("--out"), &out);
        }
        #[cfg(not(feature = "stateless"))]
        "keygen" => {
            let mut out = Vec::new();
            let mut it = Interner::new();
            misc_exec::run_keygen(arg(&args, "--seed").unwrap_or("1").parse().unwrap(), arg(&args, "--proc").unwrap_or("0").parse().unwrap(),
                                  arg(&args, "--unseeded").unwrap_or("60").parse().unwrap(), &mut out, &mut it);
            write_ndjson(arg(&args, "--out").expect("--out"), &out);
            write_json(arg(&args, "--tab").expect("--tab"), &it.tables());
        }
        #[cfg(all(feature = "pmtree", not(feature = "stateless")))]
        "storage" => cmd_storage(&args),
        #[cfg(all(feature = "pmtree", not(feature = "stateless")))]
        "crash-child" => {
            let hist: Vec<serde_json::Value> = serde_json::from_str(&std::fs::read_to_string(arg(&args, "--hist").unwrap()).unwrap()).unwrap();
            let cfg: serde_json::Value = serde_json::from_str(arg(&args, "--cfg").unwrap()).unwrap();
            storage_exec::crash_child(arg(&args, "--d").unwrap().parse().unwrap(), &cfg, arg(&args, "--k").unwrap().parse().unwrap(), &hist,
                                      arg(&args, "--log").unwrap(), arg(&args, "--abort-after").unwrap_or("0").parse().unwrap());
        }
        c => {
            eprintln!("unknown command {c}");
            std::process::exit(2);
        }
    }
}

/// zkexec tree --targets full,optimal,pm --scenario S --out T --tab TAB [--tamper-every N]
fn cmd_tree(args: &[String]) {
    let scenario = read_ndjson(arg(args, "--scenario").expect("--scenario"));
    let out_path = arg(args, "--out").expect("--out");
    let tab_path = arg(args, "--tab").expect("--tab");
    let targets = arg(args, "--targets").unwrap_or("full,optimal,pm");
    let tamper_every: usize = arg(args, "--tamper-every").map(|s| s.parse().unwrap()).unwrap_or(1);
    let mut it = Interner::new();
    let mut out = Vec::new();
    for t in targets.split(',') {
        match t {
            "full" => tree_exec::run_target("full", &tree_exec::mk_full, &scenario, &mut it, &mut out, tamper_every),
            "optimal" => tree_exec::run_target("optimal", &tree_exec::mk_optimal, &scenario, &mut it, &mut out, tamper_every),
            "full-il" => tree_exec::run_target("full-il", &tree_exec::mk_full_il, &scenario, &mut it, &mut out, tamper_every),
            "optimal-il" => tree_exec::run_target("optimal-il", &tree_exec::mk_optimal_il, &scenario, &mut it, &mut out, tamper_every),
            #[cfg(feature = "pmtree")]
            "pm" => tree_exec::run_target("pm", &tree_exec::mk_pm, &scenario, &mut it, &mut out, tamper_every),
            #[cfg(feature = "pmtree")]
            "pm-ls" => tree_exec::run_target("pm-ls", &tree_exec::mk_pm_lowspace, &scenario, &mut it, &mut out, tamper_every),
            x => {
                eprintln!("unknown target {x}");
                std::process::exit(2);
            }
        }
    }
    write_ndjson(out_path, &out);
    write_json(tab_path, &it.tables());
}

/// zkexec rln --scenario S --out T --tab TAB : the same scenario language through the public RLN API
#[cfg(not(feature = "stateless"))]
fn cmd_rln(args: &[String]) {
    let scenario = read_ndjson(arg(args, "--scenario").expect("--scenario"));
    let mut it = Interner::new();
    let mut out = Vec::new();
    rln_exec::run(&scenario, &mut it, &mut out);
    write_ndjson(arg(args, "--out").expect("--out"), &out);
    write_json(arg(args, "--tab").expect("--tab"), &it.tables());
}

/// zkexec storage --scenario S --out T --tab TAB --dir DIR : persistence and injected storage faults
#[cfg(all(feature = "pmtree", not(feature = "stateless")))]
fn cmd_storage(args: &[String]) {
    let scenario = read_ndjson(arg(args, "--scenario").expect("--scenario"));
    let dir = arg(args, "--dir").expect("--dir");
    std::fs::create_dir_all(dir).unwrap();
    let mut it = Interner::new();
    let mut out = Vec::new();
    storage_exec::run(&scenario, dir, &mut it, &mut out);
    write_ndjson(arg(args, "--out").expect("--out"), &out);
    write_json(arg(args, "--tab").expect("--tab"), &it.tables());
}

/// zkexec proto --scenario S --out T --tab TAB : registration / prove / verify / recover scenarios at depth 20
#[cfg(not(feature = "stateless"))]
fn cmd_proto(args: &[String]) {
    let scenario = read_ndjson(arg(args, "--scenario").expect("--scenario"));
    let mut it = Interner::new();
    let mut out = Vec::new();
    let dbdir = format!("{}.db", arg(args, "--out").expect("--out"));
    proto_exec::run(&scenario, &mut it, &mut out, &dbdir);
    let _ = std::fs::remove_dir_all(&dbdir);
    write_ndjson(arg(args, "--out").expect("--out"), &out);
    write_json(arg(args, "--tab").expect("--tab"), &it.tables());
}

/// zkexec ffi --scenario S --out T : runs the lock-step scenario in child processes; an abort of a child
/// (a panic crossing the extern "C" boundary) is recorded for the call that was in progress
#[cfg(not(feature = "stateless"))]
fn cmd_ffi(args: &[String]) {
    use serde_json::json;
    let scenario = read_ndjson(arg(args, "--scenario").expect("--scenario"));
    let out_path = arg(args, "--out").expect("--out");
    let exe = std::env::current_exe().unwrap();
    let mut all: Vec<serde_json::Value> = Vec::new();
    let mut start = 0usize;
    let mut round = 0;
    while start < scenario.len() && round < 200 {
        round += 1;
        let part: Vec<serde_json::Value> = scenario[start..].to_vec();
        let sp = format!("{out_path}.part{round}.scen");
        let tp = format!("{out_path}.part{round}.trace");
        write_ndjson(&sp, &part);
        let st = std::process::Command::new(&exe).args(["ffi-child", "--scenario", &sp, "--out", &tp]).stderr(std::process::Stdio::null()).status();
        let rows = if std::path::Path::new(&tp).exists() { read_ndjson(&tp) } else { vec![] };
        let ended = rows.iter().any(|r| r["t"] == "end");
        let mut last_begin: Option<usize> = None;
        for r in rows.iter() {
            if r["t"] == "begin" {
                last_begin = r["k"].as_u64().map(|x| x as usize);
            } else if r["t"] != "end" {
                let mut r = r.clone();
                r["k"] = json!(r["k"].as_u64().unwrap() as usize + start);
                all.push(r);
            }
        }
        let _ = std::fs::remove_file(&sp);
        let _ = std::fs::remove_file(&tp);
        if ended {
            break;
        }
        // the child died during call last_begin
        let k = last_begin.unwrap_or(0);
        all.push(json!({"t": "ffi", "k": k + start, "op": part[k], "abort": true,
                        "status": st.map(|s| format!("{s}")).unwrap_or_default()}));
        // resume at the next reset
        let mut nxt = k + 1;
        while nxt < part.len() && part[nxt]["c"] != "reset" {
            nxt += 1;
        }
        start += nxt;
    }
    write_ndjson(out_path, &all);
}

/// zkexec cfgrun --phase produce|verify --scenario S --msgs M --out T   (C17, one invocation per build configuration)
fn cmd_cfgrun(args: &[String]) {
    let phase = arg(args, "--phase").expect("--phase");
    let mut out: Vec<serde_json::Value> = Vec::new();
    let msgs_path = arg(args, "--msgs").expect("--msgs");
    #[cfg(not(feature = "stateless"))]
    {
        let scenario = read_ndjson(arg(args, "--scenario").expect("--scenario"));
        if phase == "produce" {
            let mut msgs = Vec::new();
            cfg_exec::produce(&scenario, &mut out, &mut msgs);
            write_ndjson(msgs_path, &msgs);
        } else {
            let msgs = read_ndjson(msgs_path);
            cfg_exec::verify_others(&scenario, &msgs, &mut out);
        }
    }
    #[cfg(feature = "stateless")]
    {
        let _ = phase;
        let msgs = read_ndjson(msgs_path);
        cfg_exec::stateless_verify(&msgs, &mut out);
    }
    write_ndjson(arg(args, "--out").expect("--out"), &out);
}
