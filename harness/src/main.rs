// zkexec: executes scenarios on the real zerokit code and records traces for the TLA+ judges.
mod intern;
#[cfg(not(feature = "stateless"))]
mod proto_exec;
#[cfg(not(feature = "stateless"))]
mod rln_exec;
#[cfg(all(feature = "pmtree", not(feature = "stateless")))]
mod storage_exec;
mod tree_exec;
mod util;

/// the tree backend the rln crate selects in this build
#[cfg(feature = "fullmerkletree")]
pub const BACKEND: &str = "full";
#[cfg(all(feature = "pmtree", not(feature = "fullmerkletree")))]
pub const BACKEND: &str = "pm";
#[cfg(all(not(feature = "pmtree"), not(feature = "fullmerkletree")))]
pub const BACKEND: &str = "optimal";

use intern::Interner;
use util::*;

fn main() {
    let args: Vec<String> = std::env::args().collect();
    if args.len() < 2 {
        eprintln!("usage: zkexec <cmd> ...");
        std::process::exit(2);
    }
    quiet_panics();
    match args[1].as_str() {
        "tree" => cmd_tree(&args),
        #[cfg(not(feature = "stateless"))]
        "rln" => cmd_rln(&args),
        #[cfg(not(feature = "stateless"))]
        "proto" => cmd_proto(&args),
        #[cfg(all(feature = "pmtree", not(feature = "stateless")))]
        "storage" => cmd_storage(&args),
        c => {
            eprintln!("unknown command {c}");
            std::process::exit(2);
        }
    }
}

/// zkexec tree --targets full,optimal,pm --scenario S --out T --tab TAB [--tamper-every N]
fn cmd_tree(args: &[String]) {
    let scenario = read_ndjson(arg(args, "--scenario").expect("--scenario"));
    let out_path = arg(args, "--out").expect("--out");
    let tab_path = arg(args, "--tab").expect("--tab");
    let targets = arg(args, "--targets").unwrap_or("full,optimal,pm");
    let tamper_every: usize = arg(args, "--tamper-every").map(|s| s.parse().unwrap()).unwrap_or(1);
    let mut it = Interner::new();
    let mut out = Vec::new();
    for t in targets.split(',') {
        match t {
            "full" => tree_exec::run_target("full", &tree_exec::mk_full, &scenario, &mut it, &mut out, tamper_every),
            "optimal" => tree_exec::run_target("optimal", &tree_exec::mk_optimal, &scenario, &mut it, &mut out, tamper_every),
            #[cfg(feature = "pmtree")]
            "pm" => tree_exec::run_target("pm", &tree_exec::mk_pm, &scenario, &mut it, &mut out, tamper_every),
            x => {
                eprintln!("unknown target {x}");
                std::process::exit(2);
            }
        }
    }
    write_ndjson(out_path, &out);
    write_json(tab_path, &it.tables());
}

/// zkexec rln --scenario S --out T --tab TAB : the same scenario language through the public RLN API
#[cfg(not(feature = "stateless"))]
fn cmd_rln(args: &[String]) {
    let scenario = read_ndjson(arg(args, "--scenario").expect("--scenario"));
    let mut it = Interner::new();
    let mut out = Vec::new();
    rln_exec::run(&scenario, &mut it, &mut out);
    write_ndjson(arg(args, "--out").expect("--out"), &out);
    write_json(arg(args, "--tab").expect("--tab"), &it.tables());
}

/// zkexec storage --scenario S --out T --tab TAB --dir DIR : persistence and injected storage faults
#[cfg(all(feature = "pmtree", not(feature = "stateless")))]
fn cmd_storage(args: &[String]) {
    let scenario = read_ndjson(arg(args, "--scenario").expect("--scenario"));
    let dir = arg(args, "--dir").expect("--dir");
    std::fs::create_dir_all(dir).unwrap();
    let mut it = Interner::new();
    let mut out = Vec::new();
    storage_exec::run(&scenario, dir, &mut it, &mut out);
    write_ndjson(arg(args, "--out").expect("--out"), &out);
    write_json(arg(args, "--tab").expect("--tab"), &it.tables());
}

/// zkexec proto --scenario S --out T --tab TAB : registration / prove / verify / recover scenarios at depth 20
#[cfg(not(feature = "stateless"))]
fn cmd_proto(args: &[String]) {
    let scenario = read_ndjson(arg(args, "--scenario").expect("--scenario"));
    let mut it = Interner::new();
    let mut out = Vec::new();
    proto_exec::run(&scenario, &mut it, &mut out);
    write_ndjson(arg(args, "--out").expect("--out"), &out);
    write_json(arg(args, "--tab").expect("--tab"), &it.tables());
}
