// C11: the same scenario through the extern "C" surface (instance A) and through the Rust API
// (instance B), in lock-step. Runs in a child process (a panic inside extern "C" aborts); every call
// is announced ("begin") before it is made so that the parent can attribute an abort.
#![cfg(not(feature = "stateless"))]
use crate::proto_exec::{fv, signal_of};
use crate::rln_exec::{enc_fr, enc_vec_fr, enc_vec_u8, new_rln};
use crate::util::*;
use rln::circuit::Fr;
use rln::ffi::{self, Buffer};
use rln::public::RLN;
use serde_json::{json, Value};
use std::collections::{BTreeSet, HashMap};
use std::io::{Cursor, Write};
use std::panic::AssertUnwindSafe;

#[derive(Default, Clone)]
pub struct CallResult {
    pub ok: bool,
    pub out: Option<Vec<u8>>,
    pub verdict: Option<bool>,
    pub num: Option<usize>,
    pub panicked: bool,
    pub readable: bool,
}

fn buf(b: &[u8]) -> Buffer {
    Buffer { ptr: b.as_ptr(), len: b.len() }
}
/// reads the bytes an output Buffer designates (only when the call reported success)
fn read_out(ok: bool, ob: &Buffer) -> (Option<Vec<u8>>, bool) {
    if !ok {
        return (None, true);
    }
    if ob.len == 0 {
        return (Some(vec![]), true);
    }
    if ob.ptr.is_null() {
        return (None, false);
    }
    (Some(unsafe { std::slice::from_raw_parts(ob.ptr, ob.len) }.to_vec()), true)
}

fn fr(v: &Value) -> Fr {
    if v.is_u64() { Fr::from(v.as_u64().unwrap()) } else { fv(v) }
}
fn frs(v: &Value) -> Vec<Fr> {
    v.as_array().unwrap().iter().map(fr).collect()
}
fn u8s(v: &Value) -> Vec<u8> {
    v.as_array().unwrap().iter().map(|x| x.as_u64().unwrap() as u8).collect()
}

/// the byte arguments of a call, shared by both surfaces
pub struct Args {
    pub a: Vec<u8>,
    pub b: Vec<u8>,
    pub idx: usize,
}

pub fn args_of(op: &Value, stored: &HashMap<String, Vec<u8>>, side: &str) -> Args {
    let c = op["c"].as_str().unwrap();
    let idx = op.get("i").or(op.get("s")).and_then(|x| x.as_u64()).unwrap_or(0) as usize;
    let msg = |key: &str| -> Vec<u8> {
        // a stored output of this surface ("own") or of the other one ("cross")
        let name = op[key].as_str().unwrap_or("");
        let from = match op.get("from").and_then(|x| x.as_str()).unwrap_or("own") {
            "cross" => if side == "ffi" { "api" } else { "ffi" },
            _ => side,
        };
        let mut b = stored.get(&format!("{from}:{name}")).cloned().unwrap_or_default();
        if let Some(sig) = op.get("sig") {
            let s = signal_of(sig);
            b.extend((s.len() as u64).to_le_bytes());
            b.extend(s);
        }
        if let Some(n) = op.get("trunc").and_then(|x| x.as_u64()) {
            b.truncate(n as usize);
        }
        b
    };
    let (a, b) = match c {
        "set" | "append" => (if op.get("rawbytes").is_some() { u8s(&op["rawbytes"]) } else { enc_fr(&fr(&op["v"])) }, vec![]),
        "range" | "init" => (enc_vec_fr(&frs(&op["vs"])), vec![]),
        "override" | "seqbatch" => (enc_vec_fr(&frs(&op["vs"])), enc_vec_u8(&u8s(&op["rem"]))),
        "set_meta" | "hash" | "seeded_key_gen" | "seeded_ext_key_gen" => (u8s(&op["m"]), vec![]),
        "poseidon" => (enc_vec_fr(&frs(&op["vs"])), vec![]),
        "prove_tree" => {
            let sig = signal_of(&op["sig"]);
            let mut r = enc_fr(&fv(&op["sec"]));
            r.extend((op["idx"].as_u64().unwrap()).to_le_bytes());
            r.extend(enc_fr(&fv(&op["lim"])));
            r.extend(enc_fr(&fv(&op["mid"])));
            r.extend(enc_fr(&fv(&op["e"])));
            r.extend((sig.len() as u64).to_le_bytes());
            r.extend(sig);
            if let Some(n) = op.get("trunc").and_then(|x| x.as_u64()) {
                r.truncate(n as usize);
            }
            (r, vec![])
        }
        "verify" | "verify_rln" | "prove_witness" | "prove_raw" => (msg("msg"), vec![]),
        "verify_roots" => {
            let m = msg("msg");
            let mut rb = Vec::new();
            for d in op.get("roots").and_then(|x| x.as_array()).cloned().unwrap_or_default() {
                match d.as_str().unwrap() {
                    "msgroot" => rb.extend_from_slice(&m.get(128..160).map(|x| x.to_vec()).unwrap_or(vec![0; 32])),
                    _ => rb.extend(enc_fr(&fv(&json!({"k": "rnd", "s": 77})))),
                }
            }
            (m, rb)
        }
        "recover" => (msg("msg"), {
            let name = op["msg2"].as_str().unwrap_or("");
            stored.get(&format!("{side}:{name}")).cloned().unwrap_or_default()
        }),
        _ => (vec![], vec![]),
    };
    Args { a, b, idx }
}

pub fn call_api(r: &mut RLN, c: &str, g: &Args, op: &Value) -> CallResult {
    let mut out: Vec<u8> = Vec::new();
    let mut verdict = None;
    let mut num = None;
    let res = catch(AssertUnwindSafe(|| -> color_eyre::Result<()> {
        match c {
            "set" => r.set_leaf(g.idx, Cursor::new(g.a.clone())),
            "delete" => r.delete_leaf(g.idx),
            "append" => r.set_next_leaf(Cursor::new(g.a.clone())),
            "range" => r.set_leaves_from(g.idx, Cursor::new(g.a.clone())),
            "init" => r.init_tree_with_leaves(Cursor::new(g.a.clone())),
            "override" => r.atomic_operation(g.idx, Cursor::new(g.a.clone()), Cursor::new(g.b.clone())),
            // the documented meaning of the sequential batch: a batch that starts at the current leaf count
            "seqbatch" => {
                let n = r.leaves_set();
                r.atomic_operation(n, Cursor::new(g.a.clone()), Cursor::new(g.b.clone()))
            }
            "set_tree" => r.set_tree(op["d"].as_u64().unwrap() as usize),
            "get_leaf" => r.get_leaf(g.idx, &mut out),
            "get_root" => r.get_root(&mut out),
            "get_proof" => r.get_proof(g.idx, &mut out),
            "leaves_set" => {
                num = Some(r.leaves_set());
                Ok(())
            }
            "set_meta" => r.set_metadata(&g.a),
            "get_meta" => r.get_metadata(&mut out),
            "flush" => r.flush(),
            "hash" => rln::public::hash(Cursor::new(g.a.clone()), &mut out),
            "poseidon" => rln::public::poseidon_hash(Cursor::new(g.a.clone()), &mut out),
            "key_gen" => r.key_gen(&mut out),
            "ext_key_gen" => r.extended_key_gen(&mut out),
            "seeded_key_gen" => r.seeded_key_gen(Cursor::new(g.a.clone()), &mut out),
            "seeded_ext_key_gen" => r.seeded_extended_key_gen(Cursor::new(g.a.clone()), &mut out),
            "prove_tree" => r.generate_rln_proof(Cursor::new(g.a.clone()), &mut out),
            "prove_witness" => r.generate_rln_proof_with_witness(Cursor::new(g.a.clone()), &mut out),
            "prove_raw" => r.prove(Cursor::new(g.a.clone()), &mut out),
            "verify" => r.verify(Cursor::new(g.a.clone())).map(|v| verdict = Some(v)),
            "verify_rln" => r.verify_rln_proof(Cursor::new(g.a.clone())).map(|v| verdict = Some(v)),
            "verify_roots" => r.verify_with_roots(Cursor::new(g.a.clone()), Cursor::new(g.b.clone())).map(|v| verdict = Some(v)),
            "recover" => r.recover_id_secret(Cursor::new(g.a.clone()), Cursor::new(g.b.clone()), &mut out),
            "get_witness" => r.get_serialized_rln_witness(Cursor::new(g.a.clone())).map(|w| out = w),
            x => panic!("unknown ffi scenario op {x}"),
        }
    }));
    match res {
        Ok(Ok(())) => CallResult { ok: true, out: Some(out), verdict, num, panicked: false, readable: true },
        Ok(Err(_)) => CallResult { ok: false, out: None, verdict: None, num: None, panicked: false, readable: true },
        Err(_) => CallResult { ok: false, out: None, verdict: None, num: None, panicked: true, readable: true },
    }
}

pub fn call_ffi(ctx: *mut RLN, c: &str, g: &Args, op: &Value) -> CallResult {
    let (ia, ib) = (buf(&g.a), buf(&g.b));
    // the caller's output descriptor is NOT fresh: it still designates an earlier result (a caller reusing one Buffer
    // variable); a successful call must overwrite it whatever the size of its output
    static STALE: [u8; 7] = *b"\xEEstale\xEE";
    let mut ob = Buffer { ptr: STALE.as_ptr(), len: STALE.len() };
    // the verdict cell starts with a value that a correct wrapper must overwrite on success and leave alone on failure
    let mut cell: bool = op.get("cell_init").and_then(|x| x.as_bool()).unwrap_or(false);
    let cell_init = cell;
    let mut num = None;
    let mut has_out = true;
    let mut has_verdict = false;
    let ok = match c {
        "set" => { has_out = false; ffi::set_leaf(ctx, g.idx, &ia) }
        "delete" => { has_out = false; ffi::delete_leaf(ctx, g.idx) }
        "append" => { has_out = false; ffi::set_next_leaf(ctx, &ia) }
        "range" => { has_out = false; ffi::set_leaves_from(ctx, g.idx, &ia) }
        "init" => { has_out = false; ffi::init_tree_with_leaves(ctx, &ia) }
        "override" => { has_out = false; ffi::atomic_operation(ctx, g.idx, &ia, &ib) }
        "seqbatch" => { has_out = false; ffi::seq_atomic_operation(ctx, &ia, &ib) }
        "set_tree" => { has_out = false; ffi::set_tree(ctx, op["d"].as_u64().unwrap() as usize) }
        "get_leaf" => ffi::get_leaf(ctx, g.idx, &mut ob),
        "get_root" => ffi::get_root(ctx, &mut ob),
        "get_proof" => ffi::get_proof(ctx, g.idx, &mut ob),
        "leaves_set" => { has_out = false; num = Some(ffi::leaves_set(ctx)); true }
        "set_meta" => { has_out = false; ffi::set_metadata(ctx, &ia) }
        "get_meta" => ffi::get_metadata(ctx, &mut ob),
        "flush" => { has_out = false; ffi::flush(ctx) }
        "hash" => ffi::hash(&ia, &mut ob),
        "poseidon" => ffi::poseidon_hash(&ia, &mut ob),
        "key_gen" => ffi::key_gen(ctx, &mut ob),
        "ext_key_gen" => ffi::extended_key_gen(ctx, &mut ob),
        "seeded_key_gen" => ffi::seeded_key_gen(ctx, &ia, &mut ob),
        "seeded_ext_key_gen" => ffi::seeded_extended_key_gen(ctx, &ia, &mut ob),
        "prove_tree" => ffi::generate_rln_proof(ctx, &ia, &mut ob),
        "prove_witness" => ffi::generate_rln_proof_with_witness(ctx, &ia, &mut ob),
        "prove_raw" => ffi::prove(ctx, &ia, &mut ob),
        "verify" => { has_out = false; has_verdict = true; ffi::verify(ctx, &ia, &mut cell) }
        "verify_rln" => { has_out = false; has_verdict = true; ffi::verify_rln_proof(ctx, &ia, &mut cell) }
        "verify_roots" => { has_out = false; has_verdict = true; ffi::verify_with_roots(ctx, &ia, &ib, &mut cell) }
        "recover" => ffi::recover_id_secret(ctx, &ia, &ib, &mut ob),
        "get_witness" => { has_out = false; false }
        x => panic!("unknown ffi scenario op {x}"),
    };
    let (out, readable) = if has_out { read_out(ok, &ob) } else { (if ok { Some(vec![]) } else { None }, true) };
    let verdict = if has_verdict {
        // on failure the cell must be untouched: report what it holds relative to its initial value
        if ok { Some(cell) } else if cell != cell_init { Some(cell) } else { None }
    } else {
        None
    };
    CallResult { ok, out, verdict, num, panicked: false, readable }
}

fn observe(call: &mut dyn FnMut(&str, usize) -> CallResult, touched: &BTreeSet<usize>) -> Value {
    let root = call("get_root", 0);
    let n = call("leaves_set", 0);
    let meta = call("get_meta", 0);
    let mut leaves = Vec::new();
    for &i in touched.iter().take(48) {
        let l = call("get_leaf", i);
        leaves.push(json!([i, l.ok, l.out.unwrap_or_default()]));
    }
    json!({"root": root.out.unwrap_or_default(), "root_ok": root.ok, "next": n.num.map(|x| x as i64).unwrap_or(-1),
           "meta": meta.out.unwrap_or_default(), "meta_ok": meta.ok, "leaves": leaves})
}

fn cr_json(c: &CallResult) -> Value {
    let mut o = json!({"ok": c.ok, "panicked": c.panicked, "readable": c.readable});
    if let Some(b) = &c.out {
        o["out"] = json!(b);
    }
    if let Some(v) = c.verdict {
        o["verdict"] = json!(v);
    }
    if let Some(n) = c.num {
        o["num"] = json!(n);
    }
    o
}

pub fn run_child(scenario: &[Value], out_path: &str) {
    let f = std::fs::File::create(out_path).unwrap();
    let mut w = std::io::BufWriter::new(f);
    let mut emit = |v: &Value| {
        serde_json::to_writer(&mut w, v).unwrap();
        w.write_all(b"\n").unwrap();
        w.flush().unwrap();
    };
    let mut a: *mut RLN = std::ptr::null_mut();
    let mut b: Option<RLN> = None;
    let mut stored: HashMap<String, Vec<u8>> = HashMap::new();
    let mut touched: BTreeSet<usize> = BTreeSet::new();
    for (k, op) in scenario.iter().enumerate() {
        let c = op["c"].as_str().unwrap();
        emit(&json!({"t": "begin", "k": k}));
        if c == "reset" {
            let d = op["d"].as_u64().unwrap_or(20) as usize;
            let with_params = op.get("params").and_then(|x| x.as_bool()).unwrap_or(false);
            let mut ctx: *mut RLN = std::ptr::null_mut();
            let ok;
            if with_params {
                // the constructor that takes the circuit resources as buffers (both sides get the bundled files)
                #[cfg(feature = "arkzkey")]
                let zk: &[u8] = rln::circuit::ARKZKEY_BYTES;
                #[cfg(not(feature = "arkzkey"))]
                let zk: &[u8] = rln::circuit::ZKEY_BYTES;
                let graph: &[u8] = rln::circuit::graph_from_folder();
                b = RLN::new_with_params(d, zk.to_vec(), graph.to_vec(), std::io::Cursor::new(Vec::<u8>::new())).ok();
                let (zb, gb, cb) = (buf(zk), buf(graph), buf(b""));
                ok = ffi::new_with_params(d, &zb, &gb, &cb, &mut ctx);
            } else {
                b = new_rln(d, &Value::Null).ok();
                let cfg = json!({}).to_string();
                let ib = buf(cfg.as_bytes());
                ok = ffi::new(d, &ib, &mut ctx);
            }
            a = if ok { ctx } else { std::ptr::null_mut() };
            touched.clear();
            for p in [0usize, 1, 2, 3] {
                touched.insert(p);
            }
            emit(&json!({"t": "reset", "k": k, "ffi_ok": ok, "api_ok": b.is_some(), "d": d}));
            continue;
        }
        if a.is_null() || b.is_none() {
            continue;
        }
        let rb = b.as_mut().unwrap();
        if let Some(i) = op.get("i").or(op.get("s")).and_then(|x| x.as_u64()) {
            for j in 0..(op.get("vs").and_then(|x| x.as_array()).map(|x| x.len()).unwrap_or(1)).min(8) {
                touched.insert(i as usize + j);
            }
        }
        if c == "append" || c == "seqbatch" {
            let n = rb.leaves_set();
            for j in 0..4 {
                touched.insert(n + j);
            }
        }
        if let Some(rem) = op.get("rem").and_then(|x| x.as_array()) {
            for x in rem {
                touched.insert(x.as_u64().unwrap() as usize);
            }
        }
        let ga = args_of(op, &stored, "api");
        let gf = args_of(op, &stored, "ffi");
        let ra = call_api(rb, c, &ga, op);
        if ra.panicked {
            // outside C11's quantifier (the Rust API did not return): recorded, instances replaced
            emit(&json!({"t": "ffi", "k": k, "op": op, "api": cr_json(&ra), "skipped": "api panicked"}));
            b = None;
            continue;
        }
        let rf = call_ffi(a, c, &gf, op);
        if let (Some(n), Some(o)) = (op.get("store").and_then(|x| x.as_str()), &ra.out) {
            stored.insert(format!("api:{n}"), o.clone());
        }
        if let (Some(n), Some(o)) = (op.get("store").and_then(|x| x.as_str()), &rf.out) {
            stored.insert(format!("ffi:{n}"), o.clone());
        }
        let ob = observe(&mut |c2: &str, i: usize| call_api(rb, c2, &Args { a: vec![], b: vec![], idx: i }, &json!({})), &touched);
        let of = observe(&mut |c2: &str, i: usize| call_ffi(a, c2, &Args { a: vec![], b: vec![], idx: i }, &json!({})), &touched);
        emit(&json!({"t": "ffi", "k": k, "op": op, "api": cr_json(&ra), "ffi": cr_json(&rf), "obs_api": ob, "obs_ffi": of,
                     "args_equal": op.get("msg").is_some() || (ga.a == gf.a && ga.b == gf.b)}));
    }
    emit(&json!({"t": "end"}));
}
