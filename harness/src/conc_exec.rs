// C18: results must not depend on the worker-pool size or on interleaving.
//  pool   : a fixed deterministic workload; run by the driver under RAYON_NUM_THREADS in {1,2,4,16}
//  shared : one shared instance, many threads issuing read-only calls behind a barrier; each response is
//           recorded per thread (no cross-thread clock) next to the sequential response of the same call
//  reopen : drop + RLN::new on the same persistent location, repeatedly, timed
#![cfg(not(feature = "stateless"))]
use crate::proto_exec::{big_fr, modulus};
use crate::rln_exec::{enc_fr, enc_vec_fr, enc_vec_u8, new_rln};
use crate::util::*;
use num_bigint::BigUint;
use rand::{RngCore, SeedableRng};
use rand_chacha::ChaCha20Rng;
use rln::circuit::{calculate_rln_witness, graph_from_folder, Fr};
use rln::protocol::{deserialize_witness, inputs_for_witness_calculation, proof_values_from_witness, serialize_proof_values};
use rln::public::RLN;
use serde_json::{json, Value};
use std::io::Cursor;
use std::panic::AssertUnwindSafe;
use std::sync::{Arc, Barrier};
use std::time::{Duration, Instant};

fn rnd_fr(r: &mut ChaCha20Rng) -> Fr {
    let mut b = [0u8; 32];
    r.fill_bytes(&mut b);
    big_fr(&(BigUint::from_bytes_le(&b) % modulus()))
}
fn fnv(bytes: &[u8]) -> String {
    let mut h: u64 = 0xcbf29ce484222325;
    for b in bytes {
        h ^= *b as u64;
        h = h.wrapping_mul(0x100000001b3);
    }
    format!("{h:016x}")
}
fn root_of(r: &RLN) -> Vec<u8> {
    let mut o = Vec::new();
    let _ = r.get_root(&mut o);
    o
}

/// the deterministic workload whose transcript must be bit-identical for every pool size
pub fn pool(seed: u64, msg_in: Option<&str>, msg_out: Option<&str>, out: &mut Vec<Value>) {
    let mut rg = ChaCha20Rng::seed_from_u64(seed);
    let mut r = new_rln(20, &Value::Null).unwrap();
    let threads = std::env::var("RAYON_NUM_THREADS").unwrap_or_default();
    let mut roots = Vec::new();
    // batch updates (parallel recomputation inside the persistent backend)
    let l1: Vec<Fr> = (0..300).map(|_| rnd_fr(&mut rg)).collect();
    let _ = r.set_leaves_from(0, Cursor::new(enc_vec_fr(&l1)));
    roots.push(root_of(&r));
    let l2: Vec<Fr> = (0..64).map(|_| rnd_fr(&mut rg)).collect();
    let _ = r.set_leaves_from(1000, Cursor::new(enc_vec_fr(&l2)));
    roots.push(root_of(&r));
    let l3: Vec<Fr> = (0..17).map(|_| rnd_fr(&mut rg)).collect();
    let _ = r.atomic_operation(1 << 19, Cursor::new(enc_vec_fr(&l3)), Cursor::new(enc_vec_u8(&[])));
    roots.push(root_of(&r));
    let _ = r.atomic_operation(0, Cursor::new(enc_vec_fr(&[])), Cursor::new(enc_vec_u8(&[3, 4, 5, 6])));
    roots.push(root_of(&r));
    // many batches with equal / default sibling pairs (the parallel recomputation hashes the same pair from several workers)
    for k in 0..40usize {
        let v = if k % 3 == 0 { Fr::from(0u64) } else { l1[k % 7] };
        let same: Vec<Fr> = vec![v; 32 + (k % 5) * 16];
        let _ = r.set_leaves_from(2000 + 128 * k, Cursor::new(enc_vec_fr(&same)));
        roots.push(root_of(&r));
    }
    // a member, its witness and proof values (data-parallel witness map / QAP reduction come with the proof)
    let s = rnd_fr(&mut rg);
    let lim = Fr::from(100u64);
    let rc = rln::hashers::poseidon_hash(&[rln::hashers::poseidon_hash(&[s]), lim]);
    let _ = r.set_leaf(77, Cursor::new(enc_fr(&rc)));
    roots.push(root_of(&r));
    let mut pb = Vec::new();
    let _ = r.get_proof(77, &mut pb);
    let (path, bits) = crate::rln_exec::dec_proof(&pb).unwrap_or_default();
    let x = rnd_fr(&mut rg);
    let e = rnd_fr(&mut rg);
    let mut wb = enc_fr(&s);
    wb.extend(enc_fr(&lim));
    wb.extend(enc_fr(&Fr::from(3u64)));
    wb.extend(enc_vec_fr(&path));
    wb.extend(enc_vec_u8(&bits));
    wb.extend(enc_fr(&x));
    wb.extend(enc_fr(&e));
    let mut witness_digest = String::new();
    let mut pv_bytes = Vec::new();
    if let Ok((w, _)) = deserialize_witness(&wb) {
        if let Ok(inp) = inputs_for_witness_calculation(&w) {
            let inputs = inp.into_iter().map(|(n, v)| (n.to_string(), v));
            if let Ok(full) = calculate_rln_witness(inputs, graph_from_folder()) {
                let mut all = Vec::new();
                for f in &full {
                    all.extend(crate::intern::fr_le_bytes(f));
                }
                witness_digest = format!("{}:{}", full.len(), fnv(&all));
            }
        }
        if let Ok(pv) = proof_values_from_witness(&w) {
            pv_bytes = serialize_proof_values(&pv);
        }
    }
    // a proof made here verifies here; the message of the FIRST process is verified by every process
    let mut m = Vec::new();
    let made = r.generate_rln_proof_with_witness(Cursor::new(wb.clone()), &mut m).is_ok();
    let own = made && r.verify(Cursor::new(m.clone())).unwrap_or(false);
    if let Some(p) = msg_out {
        write_json(p, &json!(m));
    }
    let mut foreign = json!([]);
    if let Some(p) = msg_in {
        let fm: Vec<u8> = serde_json::from_str(&std::fs::read_to_string(p).unwrap()).unwrap();
        let mut tampered = fm.clone();
        if tampered.len() > 200 {
            tampered[200] ^= 1;
        }
        foreign = json!([r.verify(Cursor::new(fm)).unwrap_or(false), r.verify(Cursor::new(tampered)).unwrap_or(false)]);
    }
    out.push(json!({"t": "pool", "threads": threads, "rayon": rayon_threads(), "roots": roots, "witness": witness_digest, "pv": pv_bytes,
                    "own_verifies": own, "foreign": foreign}));
}

fn rayon_threads() -> usize {
    // what the library's thread pool would use (pmtree builds its pool from rayon::current_num_threads())
    std::env::var("RAYON_NUM_THREADS").ok().and_then(|s| s.parse().ok()).unwrap_or(0)
}

fn read_call(r: &RLN, call: &str, arg: &Value, msgs: &[Vec<u8>]) -> Value {
    let mut o = Vec::new();
    let res = catch(AssertUnwindSafe(|| -> color_eyre::Result<Value> {
        Ok(match call {
            "get_root" => { r.get_root(&mut o)?; json!(o) }
            "get_leaf" => { r.get_leaf(arg.as_u64().unwrap() as usize, &mut o)?; json!(o) }
            "get_proof" => { r.get_proof(arg.as_u64().unwrap() as usize, &mut o)?; json!(o) }
            "get_meta" => { r.get_metadata(&mut o)?; json!(o) }
            "empties" => { r.get_empty_leaves_indices(&mut o)?; json!(o) }
            "verify_rln" => json!(r.verify_rln_proof(Cursor::new(msgs[arg.as_u64().unwrap() as usize].clone()))?),
            "verify" => json!(r.verify(Cursor::new(msgs[arg.as_u64().unwrap() as usize][..288].to_vec()))?),
            "verify_roots" => json!(r.verify_with_roots(Cursor::new(msgs[arg.as_u64().unwrap() as usize].clone()), Cursor::new(vec![]))?),
            "hash" => { rln::public::hash(Cursor::new(bytes_of(arg)), &mut o)?; json!(o) }
            "poseidon" | "poseidon_bad" => { rln::public::poseidon_hash(Cursor::new(bytes_of(arg)), &mut o)?; json!(o) }
            "seeded_key_gen" => { r.seeded_key_gen(Cursor::new(bytes_of(arg)), &mut o)?; json!(o) }
            "seeded_ext_key_gen" => { r.seeded_extended_key_gen(Cursor::new(bytes_of(arg)), &mut o)?; json!(o) }
            "recover" => { r.recover_id_secret(Cursor::new(msgs[0].clone()), Cursor::new(msgs[1].clone()), &mut o)?; json!(o) }
            c => panic!("unknown read call {c}"),
        })
    }));
    match res {
        // (long outputs are recorded as length + digest: equality is all the judge looks at)
        Ok(Ok(Value::Array(a))) if a.len() > 256 => {
            let mut h: u64 = 0xcbf29ce484222325;
            for x in a.iter() {
                h ^= x.as_u64().unwrap_or(0);
                h = h.wrapping_mul(0x100000001b3);
            }
            json!({"res": "ok", "val": {"len": a.len(), "digest": format!("{h:016x}")}})
        }
        Ok(Ok(v)) => json!({"res": "ok", "val": v}),
        Ok(Err(_)) => json!({"res": "err"}),
        Err(_) => json!({"res": "panic"}),
    }
}

/// the frozen tree content of the shared-instance experiment (the same on every instance built for it)
fn frozen_tree(secrets: &[Fr], idxs: &[usize], lim: Fr, fill: &[Fr]) -> RLN {
    let mut r = new_rln(20, &Value::Null).unwrap();
    for (s, i) in secrets.iter().zip(idxs) {
        let rc = rln::hashers::poseidon_hash(&[rln::hashers::poseidon_hash(&[*s]), lim]);
        r.set_leaf(*i, Cursor::new(enc_fr(&rc))).unwrap();
    }
    r.set_leaves_from(100, Cursor::new(enc_vec_fr(fill))).unwrap();
    r.delete_leaf(101).unwrap();
    r.set_metadata(b"frozen").unwrap();
    r
}

pub fn shared(seed: u64, nthreads: usize, ncalls: usize, out: &mut Vec<Value>) {
    let mut rg = ChaCha20Rng::seed_from_u64(seed);
    let lim = Fr::from(10u64);
    let secrets: Vec<Fr> = (0..2).map(|_| rnd_fr(&mut rg)).collect();
    let idxs = [5usize, (1 << 19) + 9];
    let fill: Vec<Fr> = (0..40).map(|_| rnd_fr(&mut rg)).collect();
    let mut r = frozen_tree(&secrets, &idxs, lim, &fill);
    // messages: two by the same member in the same epoch (recoverable), one by the other
    let e = rnd_fr(&mut rg);
    let mut msgs: Vec<Vec<u8>> = Vec::new();
    for (k, (si, sig)) in [(0usize, b"first".to_vec()), (0, b"second!".to_vec()), (1, b"other".to_vec())].iter().enumerate() {
        let mut req = enc_fr(&secrets[*si]);
        req.extend((idxs[*si] as u64).to_le_bytes());
        req.extend(enc_fr(&lim));
        req.extend(enc_fr(&Fr::from(1u64)));
        req.extend(enc_fr(&e));
        req.extend((sig.len() as u64).to_le_bytes());
        req.extend(sig);
        let mut m = Vec::new();
        r.generate_rln_proof(Cursor::new(req), &mut m).unwrap();
        m.extend((sig.len() as u64).to_le_bytes());
        m.extend(sig);
        if k == 2 {
            m[130] ^= 1; // a message that must NOT verify: the verdict "false" must be stable too
        }
        msgs.push(m);
    }
    let calls: Vec<(String, Value)> = vec![
        ("get_root".into(), json!(0)), ("get_leaf".into(), json!(5)), ("get_leaf".into(), json!(101)), ("get_leaf".into(), json!((1 << 19) + 9)),
        ("get_proof".into(), json!(5)), ("get_proof".into(), json!((1 << 20) - 1)), ("get_meta".into(), json!(0)), ("empties".into(), json!(0)),
        ("verify_rln".into(), json!(0)), ("verify_rln".into(), json!(1)), ("verify_rln".into(), json!(2)), ("verify".into(), json!(0)),
        ("verify_roots".into(), json!(1)), ("hash".into(), json!([1, 2, 3])), ("hash".into(), json!([])),
        ("poseidon".into(), json!(enc_vec_fr(&[Fr::from(1u64), Fr::from(2u64)]))), ("poseidon".into(), json!(enc_vec_fr(&[secrets[0]; 5]))),
        ("seeded_key_gen".into(), json!([9, 9, 9])), ("seeded_ext_key_gen".into(), json!([9, 9, 9])), ("recover".into(), json!(0)),
        // membership paths of many positions (asked for over and over by all threads in the last phase)
        ("get_proof".into(), json!(6)), ("get_proof".into(), json!(100)), ("get_proof".into(), json!(101)), ("get_proof".into(), json!(102)),
        ("get_proof".into(), json!(139)), ("get_proof".into(), json!((1 << 19) + 9)),
        // LAST: a call that fails by itself (nine inputs: no Poseidon parameters) - it fails the same way from any thread,
        // and must not change what the other callers get
        ("poseidon_bad".into(), json!(enc_vec_fr(&[Fr::from(3u64); 9]))),
    ];
    let proof_shapes: Vec<usize> = calls.iter().enumerate().filter(|(_, c)| c.0 == "get_proof").map(|(i, _)| i).collect();
    let verify_shapes: Vec<usize> = calls.iter().enumerate().filter(|(_, c)| c.0.starts_with("verify")).map(|(i, _)| i).collect();
    // the sequential responses (the specification of every concurrent one)
    for (i, (c, a)) in calls.iter().enumerate() {
        let v = read_call(&r, c, a, &msgs);
        out.push(json!({"t": "seqref", "call": i, "name": c, "resp": v}));
    }
    drop(r);
    let msgs = Arc::new(msgs);
    let calls = Arc::new(calls);
    let (proof_shapes, verify_shapes) = (Arc::new(proof_shapes), Arc::new(verify_shapes));
    // Every round uses a FRESH instance with the same tree content on which nothing has been called yet: all threads
    // leave the barrier together and begin with a verification (whatever an instance initialises lazily is then
    // initialised under contention); then the mixed calls; then a storm of membership-path queries.
    let rounds = if ncalls >= 200 { 6 } else { 3 };
    for round in 0..rounds {
        // (a crash of the code under test while the next instance is built is data, not a harness failure)
        let r = match catch(AssertUnwindSafe(|| frozen_tree(&secrets, &idxs, lim, &fill))) {
            Ok(r) => Arc::new(Shared(r)),
            Err(m) => {
                for t in 0..nthreads {
                    out.push(json!({"t": "thread", "thr": t, "round": round, "finished": false,
                                    "msg": format!("no instance for this round: {}", m.chars().take(120).collect::<String>())}));
                }
                continue;
            }
        };
        let barrier = Arc::new(Barrier::new(nthreads));
        let (tx, rx) = std::sync::mpsc::channel::<(usize, Vec<Value>)>();
        for t in 0..nthreads {
            let (r, msgs, calls, barrier, tx) = (r.clone(), msgs.clone(), calls.clone(), barrier.clone(), tx.clone());
            let (proof_shapes, verify_shapes) = (proof_shapes.clone(), verify_shapes.clone());
            std::thread::spawn(move || {
                quiet_panics();
                let mut evs = Vec::new();
                barrier.wait();
                let per_round = ncalls / rounds + 1;
                for j in 0..per_round {
                    let i = if j == 0 { verify_shapes[t % verify_shapes.len()] } else { (t * 7 + j * 3 + round) % calls.len() };
                    let v = read_call(&r, &calls[i].0, &calls[i].1, &msgs);
                    evs.push(json!({"t": "call", "thr": t, "seq": j, "round": round, "call": i, "name": calls[i].0, "resp": v}));
                }
                for j in 0..(if ncalls >= 200 { 4000 } else { 1000 }) {
                    let i = proof_shapes[(t + j * (t % 3 + 1)) % proof_shapes.len()];
                    let v = read_call(&r, &calls[i].0, &calls[i].1, &msgs);
                    evs.push(json!({"t": "call", "thr": t, "seq": per_round + j, "round": round, "call": i, "name": calls[i].0, "resp": v}));
                }
                let _ = tx.send((t, evs));
            });
        }
        drop(tx);
        let deadline = Instant::now() + Duration::from_secs(120);
        let mut done = vec![false; nthreads];
        while done.iter().any(|d| !*d) {
            let left = deadline.saturating_duration_since(Instant::now());
            match rx.recv_timeout(left) {
                Ok((t, evs)) => {
                    done[t] = true;
                    out.extend(evs);
                }
                Err(_) => break,
            }
        }
        for (t, d) in done.iter().enumerate() {
            out.push(json!({"t": "thread", "thr": t, "round": round, "finished": *d}));
        }
    }
}

/// create an instance in a helper thread and wait for it at most `limit_ms`: a creation that never returns is data
/// ("timeout"), not a hung harness (the helper thread is then left behind)
#[cfg(feature = "pmtree")]
fn timed_new(depth: usize, cfg: &Value, limit_ms: u64) -> (Result<RLN, (String, String)>, u64) {
    let (tx, rx) = std::sync::mpsc::channel::<Shared<Result<Result<RLN, String>, String>>>();
    let cfg = cfg.clone();
    let t0 = Instant::now();
    std::thread::spawn(move || {
        quiet_panics();
        let r = catch(AssertUnwindSafe(|| new_rln(depth, &cfg).map_err(|e| e.to_string().chars().take(200).collect::<String>())));
        let _ = tx.send(Shared(r));
    });
    let r = rx.recv_timeout(Duration::from_millis(limit_ms));
    let ms = t0.elapsed().as_millis() as u64;
    match r {
        Ok(Shared(Ok(Ok(r)))) => (Ok(r), ms),
        Ok(Shared(Ok(Err(e)))) => (Err(("err".into(), e)), ms),
        Ok(Shared(Err(m))) => (Err(("panic".into(), m)), ms),
        Err(_) => (Err(("timeout".into(), format!("no answer after {limit_ms} ms"))), ms),
    }
}

/// re-creation on a location that holds a tree of ANOTHER depth (a node restarted with a changed configuration):
/// whatever the new instance contains, the call must come back within the bound, and so must the next one
#[cfg(feature = "pmtree")]
pub fn regeometry(dir: &str, out: &mut Vec<Value>) {
    let path = format!("{dir}/regeom-db");
    let _ = std::fs::remove_dir_all(&path);
    let cfg = json!({"path": path, "temporary": false});
    for (k, depth) in [10usize, 10, 12, 8, 12, 20, 10].iter().enumerate() {
        let (r, ms) = timed_new(*depth, &cfg, 40_000);
        match r {
            Ok(mut r) => {
                let _ = r.set_leaf(k, Cursor::new(enc_fr(&Fr::from(k as u64 + 1))));
                if k % 2 == 0 {
                    let _ = r.flush();
                }
                out.push(json!({"t": "regeom", "n": k, "depth": depth, "res": "ok", "ms": ms}));
                drop(r);
            }
            Err((res, msg)) => {
                out.push(json!({"t": "regeom", "n": k, "depth": depth, "res": res, "ms": ms, "msg": msg}));
                if res == "timeout" {
                    break; // the helper thread may still hold the location
                }
            }
        }
    }
    let _ = std::fs::remove_dir_all(&path);
}

/// re-creation right after the drop under other shapes of the storage configuration: a location without the
/// "temporary" key (the store then removes the directory when the instance is dropped - re-creating while it lingers
/// must still succeed; added after C18-m10) - only success within the bound is demanded
#[cfg(feature = "pmtree")]
pub fn recreate_shapes(dir: &str, n: usize, out: &mut Vec<Value>) {
    for (shape, cfg) in [("path-only", json!({"path": format!("{dir}/shape-path-only")})),
                         ("path-only-lowspace", json!({"path": format!("{dir}/shape-path-ls"), "mode": "LowSpace", "cache_capacity": 1000000u64}))] {
        for k in 0..n {
            // the store removes the directory of such a location some time after the drop; every other cycle the state
            // "still there" is made certain (an emptied directory) instead of left to the scheduler
            if k % 2 == 1 {
                let _ = std::fs::create_dir_all(cfg["path"].as_str().unwrap());
            }
            let t0 = Instant::now();
            let r = catch(AssertUnwindSafe(|| new_rln(14, &cfg)));
            let ms = t0.elapsed().as_millis() as u64;
            match r {
                Ok(Ok(mut r)) => {
                    // (a few hundred leaves: the store has something to remove when the instance goes away)
                    let leaves: Vec<Fr> = (0..300u64).map(|j| Fr::from(j + 1000 * k as u64 + 1)).collect();
                    let _ = r.set_leaves_from(0, Cursor::new(enc_vec_fr(&leaves)));
                    out.push(json!({"t": "recreate", "shape": shape, "n": k, "res": "ok", "ms": ms}));
                    drop(r);
                }
                Ok(Err(e)) => out.push(json!({"t": "recreate", "shape": shape, "n": k, "res": "err", "ms": ms, "msg": e.to_string().chars().take(200).collect::<String>()})),
                Err(m) => out.push(json!({"t": "recreate", "shape": shape, "n": k, "res": "panic", "ms": ms, "msg": m})),
            }
        }
    }
}

#[cfg(feature = "pmtree")]
pub fn reopen(dir: &str, n: usize, out: &mut Vec<Value>) {
    let path = format!("{dir}/reopen-db");
    let _ = std::fs::remove_dir_all(&path);
    let cfg = json!({"path": path, "temporary": false});
    for k in 0..n {
        let t0 = Instant::now();
        let r = catch(AssertUnwindSafe(|| new_rln(20, &cfg)));
        let ms = t0.elapsed().as_millis() as u64;
        match r {
            Ok(Ok(mut r)) => {
                let leaf_ok = r.set_leaf(k, Cursor::new(enc_fr(&Fr::from(k as u64 + 1)))).is_ok();
                let n_leaves = r.leaves_set();
                out.push(json!({"t": "reopen", "n": k, "res": "ok", "ms": ms, "leaf_ok": leaf_ok, "leaves": n_leaves}));
                if k % 2 == 0 {
                    let _ = r.flush();
                }
                drop(r); // the next iteration re-creates the instance right after this drop
            }
            Ok(Err(e)) => out.push(json!({"t": "reopen", "n": k, "res": "err", "ms": ms, "msg": e.to_string().chars().take(200).collect::<String>()})),
            Err(m) => out.push(json!({"t": "reopen", "n": k, "res": "panic", "ms": ms, "msg": m})),
        }
    }
    // hand-over cycles on their own location: another thread drops the instance (the drop writes the unflushed
    // batch out, which takes a moment) while this thread re-creates it as soon as the drop has been announced.
    // Only success within the bound is required here; what the new instance contains while the old one may
    // still be alive is recorded (kept) but not judged.
    let path = format!("{dir}/handover-db");
    let _ = std::fs::remove_dir_all(&path);
    let cfg = json!({"path": path, "temporary": false, "cache_capacity": 100000000u64, "flush_every_ms": 60000});
    let mut cur = catch(AssertUnwindSafe(|| new_rln(14, &cfg))).ok().and_then(|r| r.ok());
    for k in 0..n {
        let Some(mut r) = cur.take() else {
            out.push(json!({"t": "handover", "n": k, "res": "err", "ms": 0, "kept": false, "msg": "no instance to hand over"}));
            cur = catch(AssertUnwindSafe(|| new_rln(14, &cfg))).ok().and_then(|r| r.ok());
            continue;
        };
        let leaves: Vec<Fr> = (0..6000u64).map(|j| Fr::from(j + k as u64 + 1)).collect();
        let _ = r.set_leaves_from(0, Cursor::new(enc_vec_fr(&leaves)));
        let before = r.leaves_set();
        let (tx, rx) = std::sync::mpsc::channel::<()>();
        let h = std::thread::spawn(move || {
            let _ = tx.send(());
            drop(r);
        });
        let _ = rx.recv();
        let t1 = Instant::now();
        let r2 = catch(AssertUnwindSafe(|| new_rln(14, &cfg)));
        let ms = t1.elapsed().as_millis() as u64;
        let _ = h.join();
        match r2 {
            Ok(Ok(mut r2)) => {
                out.push(json!({"t": "handover", "n": k, "res": "ok", "ms": ms, "kept": r2.leaves_set() == before}));
                cur = Some(r2);
            }
            Ok(Err(e)) => {
                out.push(json!({"t": "handover", "n": k, "res": "err", "ms": ms, "kept": false, "msg": e.to_string().chars().take(200).collect::<String>()}));
                cur = catch(AssertUnwindSafe(|| new_rln(14, &cfg))).ok().and_then(|r| r.ok());
            }
            Err(m) => {
                out.push(json!({"t": "handover", "n": k, "res": "panic", "ms": ms, "kept": false, "msg": m}));
                cur = catch(AssertUnwindSafe(|| new_rln(14, &cfg))).ok().and_then(|r| r.ok());
            }
        }
    }
    drop(cur);
    let _ = std::fs::remove_dir_all(&path);
}
