// Recorders for the function-level properties: wire formats (C10) and identity generation (C14).
// Values are recorded in a representation that does not go through the functions under test:
// field elements as sixteen 16-bit limbs taken from the big-integer limbs, usize as four 16-bit limbs.
use crate::intern::Interner;
use crate::proto_exec::{big_fr, modulus};
use crate::util::*;
use ark_ff::PrimeField;
use num_bigint::BigUint;
use rand::{Rng, RngCore, SeedableRng};
use rand_chacha::ChaCha20Rng;
use rln::circuit::Fr;
use rln::protocol::*;
use rln::utils::*;
use serde_json::{json, Value};
use std::panic::AssertUnwindSafe;

pub fn limbs16(v: &Fr) -> Vec<u16> {
    let l = v.into_bigint().0;
    let mut o = Vec::with_capacity(16);
    for w in l.iter() {
        for k in 0..4 {
            o.push(((w >> (16 * k)) & 0xffff) as u16);
        }
    }
    o
}
pub fn ulimbs(u: u64) -> Vec<u16> {
    (0..4).map(|k| ((u >> (16 * k)) & 0xffff) as u16).collect()
}

pub fn pick_fr(r: &mut ChaCha20Rng) -> Fr {
    let p = modulus();
    let one = BigUint::from(1u8);
    match r.gen_range(0..10) {
        0 => Fr::from(0u64),
        1 => Fr::from(1u64),
        2 => big_fr(&(&p - &one)),
        3 => big_fr(&(&p - BigUint::from(r.gen_range(2u32..300)))),
        4 => {
            let k = r.gen_range(1..254usize);
            let b = &one << k;
            big_fr(&(match r.gen_range(0..3) {
                0 => &b - &one,
                1 => b.clone(),
                _ => &b + &one,
            } % &p))
        }
        5 => Fr::from(r.gen_range(0u64..70000)),
        6 => Fr::from(r.gen::<u64>()),
        _ => {
            let mut b = [0u8; 32];
            r.fill_bytes(&mut b);
            big_fr(&(BigUint::from_bytes_le(&b) % &p))
        }
    }
}

fn res_of<T>(r: Result<color_eyre::Result<T>, String>) -> (String, Option<T>) {
    match r {
        Ok(Ok(v)) => ("ok".into(), Some(v)),
        Ok(Err(_)) => ("err".into(), None),
        Err(_) => ("panic".into(), None),
    }
}

/// zkexec codec --seed N --count K --out T
pub fn run_codec(seed: u64, count: usize, out: &mut Vec<Value>) {
    let mut r = ChaCha20Rng::seed_from_u64(seed);
    for it in 0..count {
        let which = it % 12;
        match which {
            0 => {
                let v = pick_fr(&mut r);
                let b = fr_to_bytes_le(&v);
                let back = catch(AssertUnwindSafe(|| bytes_le_to_fr(&b)));
                let mut ev = json!({"t": "codec", "f": "fr", "val": limbs16(&v), "bytes": b});
                match back {
                    Ok((w, n)) => {
                        ev["back"] = json!(limbs16(&w));
                        ev["read"] = json!(n);
                        ev["res"] = json!("ok");
                    }
                    Err(_) => ev["res"] = json!("panic"),
                }
                // the thin wrappers
                ev["ser_el"] = json!(serialize_field_element(v));
                ev["de_el"] = json!(limbs16(&deserialize_field_element(fr_to_bytes_le(&v))));
                out.push(ev);
            }
            1 => {
                let n = [0usize, 1, 2, 3, 20, 33][r.gen_range(0..6)];
                let vs: Vec<Fr> = (0..n).map(|_| pick_fr(&mut r)).collect();
                let (res, b) = res_of(catch(AssertUnwindSafe(|| vec_fr_to_bytes_le(&vs))));
                let mut ev = json!({"t": "codec", "f": "vec_fr", "val": vs.iter().map(limbs16).collect::<Vec<_>>(), "res": res});
                if let Some(b) = b {
                    let (r2, back) = res_of(catch(AssertUnwindSafe(|| bytes_le_to_vec_fr(&b))));
                    ev["bytes"] = json!(b);
                    ev["res_back"] = json!(r2);
                    if let Some((w, n)) = back {
                        ev["back"] = json!(w.iter().map(limbs16).collect::<Vec<_>>());
                        ev["read"] = json!(n);
                    }
                }
                out.push(ev);
            }
            2 => {
                let n = [0usize, 1, 2, 20, 300][r.gen_range(0..5)];
                let bs: Vec<u8> = (0..n).map(|_| r.gen()).collect();
                let (res, b) = res_of(catch(AssertUnwindSafe(|| vec_u8_to_bytes_le(&bs))));
                let mut ev = json!({"t": "codec", "f": "vec_u8", "val": bs, "res": res});
                if let Some(b) = b {
                    let (r2, back) = res_of(catch(AssertUnwindSafe(|| bytes_le_to_vec_u8(&b))));
                    ev["bytes"] = json!(b);
                    ev["res_back"] = json!(r2);
                    if let Some((w, n)) = back {
                        ev["back"] = json!(w);
                        ev["read"] = json!(n);
                    }
                }
                out.push(ev);
            }
            3 => {
                let u: u64 = [0u64, 1, 255, 256, (1 << 32) - 1, 1 << 32, (1 << 32) + 1, 1 << 63, u64::MAX][r.gen_range(0..9)];
                let b = normalize_usize(u as usize);
                out.push(json!({"t": "codec", "f": "usize", "val": ulimbs(u), "bytes": b.to_vec(), "res": "ok"}));
            }
            4 => {
                // index lists (the layout of get_empty_leaves_indices is decoded by bytes_le_to_vec_usize)
                let n = [0usize, 1, 3, 7][r.gen_range(0..4)];
                let us: Vec<u64> = (0..n).map(|_| [0u64, 1, 1 << 20, (1 << 32) + 5, r.gen::<u32>() as u64][r.gen_range(0..5)]).collect();
                let mut b = (n as u64).to_le_bytes().to_vec();
                for u in &us {
                    b.extend(u.to_le_bytes());
                }
                let (res, back) = res_of(catch(AssertUnwindSafe(|| bytes_le_to_vec_usize(&b))));
                let mut ev = json!({"t": "codec", "f": "vec_usize", "val": us.iter().map(|u| ulimbs(*u)).collect::<Vec<_>>(), "bytes": b, "res": res});
                if let Some(w) = back {
                    ev["back"] = json!(w.iter().map(|u| ulimbs(*u as u64)).collect::<Vec<_>>());
                }
                out.push(ev);
            }
            5 | 6 | 7 => {
                // witness: value -> bytes through the library's own constructor path (deserialize(serialize)) and
                // the harness's independent encoding
                let s = pick_fr(&mut r);
                let lim = Fr::from([1u64, 2, 100, 65535, 65536][r.gen_range(0..5)]);
                let limv = fr_u64(&lim);
                let mid = Fr::from(r.gen_range(0..limv));
                let n = [20usize, 20, 0, 1, 3][r.gen_range(0..5)];
                let path: Vec<Fr> = (0..n).map(|_| pick_fr(&mut r)).collect();
                let bits: Vec<u8> = (0..n).map(|_| r.gen_range(0..2) as u8).collect();
                let x = pick_fr(&mut r);
                let e = pick_fr(&mut r);
                let mine = {
                    let mut b = crate::rln_exec::enc_fr(&s);
                    b.extend(crate::rln_exec::enc_fr(&lim));
                    b.extend(crate::rln_exec::enc_fr(&mid));
                    b.extend(crate::rln_exec::enc_vec_fr(&path));
                    b.extend(crate::rln_exec::enc_vec_u8(&bits));
                    b.extend(crate::rln_exec::enc_fr(&x));
                    b.extend(crate::rln_exec::enc_fr(&e));
                    b
                };
                let mut ev = json!({"t": "codec", "f": "witness",
                    "val": {"s": limbs16(&s), "lim": limbs16(&lim), "mid": limbs16(&mid), "path": path.iter().map(limbs16).collect::<Vec<_>>(),
                            "bits": bits, "x": limbs16(&x), "e": limbs16(&e)}});
                let (r1, w) = res_of(catch(AssertUnwindSafe(|| deserialize_witness(&mine))));
                ev["res"] = json!(r1);
                if let Some((w, read)) = w {
                    ev["read"] = json!(read);
                    let (r2, b) = res_of(catch(AssertUnwindSafe(|| serialize_witness(&w))));
                    ev["res_ser"] = json!(r2);
                    if let Some(b) = b {
                        ev["bytes"] = json!(b);
                    }
                    // JSON codec round trip
                    let (r3, j) = res_of(catch(AssertUnwindSafe(|| rln_witness_to_json(&w))));
                    ev["res_json"] = json!(r3);
                    if let Some(j) = j {
                        let back = catch(AssertUnwindSafe(|| rln_witness_from_json(j)));
                        ev["json_back_eq"] = json!(matches!(back, Ok(Ok(ref w2)) if *w2 == w));
                    }
                    let (r4, j2) = res_of(catch(AssertUnwindSafe(|| rln_witness_to_bigint_json(&w))));
                    ev["res_bigjson"] = json!(r4);
                    if let Some(j2) = j2 {
                        ev["bigjson"] = j2;
                        ev["dec"] = json!({"s": s.to_string(), "lim": lim.to_string(), "mid": mid.to_string(), "x": x.to_string(), "e": e.to_string()});
                    }
                    // proof values and their layout
                    if let Ok(Ok(pv)) = catch(AssertUnwindSafe(|| proof_values_from_witness(&w))) {
                        let pb = serialize_proof_values(&pv);
                        ev["pv"] = json!({"root": limbs16(&pv.root), "e": limbs16(&pv.external_nullifier), "x": limbs16(&pv.x),
                                           "y": limbs16(&pv.y), "nul": limbs16(&pv.nullifier)});
                        ev["pv_bytes"] = json!(pb);
                        let (back, n) = deserialize_proof_values(&pb);
                        ev["pv_back_eq"] = json!(back == pv && n == 160);
                    }
                }
                // mutated encodings must never decode (missing / trailing bytes)
                let mut muts = Vec::new();
                for (tag, m) in [("drop_last", mine[..mine.len() - 1].to_vec()), ("append_zero", [mine.clone(), vec![0]].concat()),
                                 ("drop_first", mine[1..].to_vec()), ("append_32", [mine.clone(), vec![0; 32]].concat()),
                                 ("half", mine[..mine.len() / 2].to_vec())] {
                    let (rr, _) = res_of(catch(AssertUnwindSafe(|| deserialize_witness(&m))));
                    muts.push(json!([tag, rr]));
                }
                // the two length prefixes disagree with each other or with what follows (same total length, or
                // one announced byte more / 2^64-1 bytes): "missing or trailing bytes" in another guise
                {
                    let np = path.len();
                    let off_p = 96usize;
                    let off_i = 96 + 8 + 32 * np;
                    let setlen = |m: &mut Vec<u8>, off: usize, v: u64| m[off..off + 8].copy_from_slice(&v.to_le_bytes());
                    let mut cases: Vec<(&str, Vec<u8>)> = Vec::new();
                    for (tag, off, v) in [("idxlen-1", off_i, (np as u64).saturating_sub(1)), ("idxlen+1", off_i, np as u64 + 1), ("idxlen+100", off_i, np as u64 + 100),
                                          ("idxlen_max", off_i, u64::MAX), ("pathlen-1", off_p, (np as u64).saturating_sub(1)), ("pathlen+1", off_p, np as u64 + 1),
                                          ("pathlen_max", off_p, u64::MAX)] {
                        if np == 0 && tag.ends_with("-1") {
                            continue;
                        }
                        let mut m = mine.clone();
                        setlen(&mut m, off, v);
                        cases.push((tag, m));
                    }
                    // one direction byte fewer announced, the spare byte moved behind the encoding's end is still there
                    for (tag, m) in cases {
                        let (rr, _) = res_of(catch(AssertUnwindSafe(|| deserialize_witness(&m))));
                        muts.push(json!([tag, rr]));
                    }
                }
                ev["mutated"] = json!(muts);
                ev["mine"] = json!(mine);
                out.push(ev);
            }
            8 => {
                let s = pick_fr(&mut r);
                let lim = pick_fr(&mut r);
                let mid = pick_fr(&mut r);
                let e = pick_fr(&mut r);
                let idx: u64 = [0u64, 1, 1 << 19, (1 << 20) - 1, 1 << 32][r.gen_range(0..5)];
                let n = [0usize, 1, 135, 136, 137, 300][r.gen_range(0..6)];
                let sig: Vec<u8> = (0..n).map(|_| r.gen()).collect();
                let b = prepare_prove_input(s, idx as usize, lim, mid, e, &sig);
                out.push(json!({"t": "codec", "f": "prove_input", "res": "ok", "bytes": b,
                    "val": {"s": limbs16(&s), "idx": ulimbs(idx), "lim": limbs16(&lim), "mid": limbs16(&mid), "e": limbs16(&e), "sig": sig}}));
            }
            9 => {
                let pn = [288usize, 0, 5][r.gen_range(0..3)];
                let pd: Vec<u8> = (0..pn).map(|_| r.gen()).collect();
                let n = [0usize, 1, 70000, 137][r.gen_range(0..4)];
                let sig: Vec<u8> = (0..n).map(|k| (k % 251) as u8).collect();
                let b = prepare_verify_input(pd.clone(), &sig);
                // long signals: record only length + a digest-like sample to keep traces small
                if n > 1000 {
                    out.push(json!({"t": "codec", "f": "verify_input_long", "res": "ok", "plen": pn, "siglen": n, "len": b.len(),
                        "head": b[..pn + 8].to_vec(), "proof": pd, "tail_ok": b[pn + 8..] == sig[..]}));
                } else {
                    out.push(json!({"t": "codec", "f": "verify_input", "res": "ok", "bytes": b, "val": {"proof": pd, "sig": sig}}));
                }
            }
            10 => {
                // identity tuples
                let a = pick_fr(&mut r);
                let b = pick_fr(&mut r);
                let c = pick_fr(&mut r);
                let d = pick_fr(&mut r);
                let mut bytes = crate::rln_exec::enc_fr(&a);
                bytes.extend(crate::rln_exec::enc_fr(&b));
                let (p1, p2) = deserialize_identity_pair(bytes.clone());
                bytes.extend(crate::rln_exec::enc_fr(&c));
                bytes.extend(crate::rln_exec::enc_fr(&d));
                let (t1, t2, t3, t4) = deserialize_identity_tuple(bytes.clone());
                out.push(json!({"t": "codec", "f": "identity", "res": "ok", "bytes": bytes,
                    "val": [limbs16(&a), limbs16(&b), limbs16(&c), limbs16(&d)],
                    "pair": [limbs16(&p1), limbs16(&p2)], "tuple": [limbs16(&t1), limbs16(&t2), limbs16(&t3), limbs16(&t4)]}));
            }
            _ => {
                // str_to_fr (decimal / hex) against the limbs
                let v = pick_fr(&mut r);
                let dec = fr_big_str(&v, 10);
                let hex = format!("0x{}", fr_big_str(&v, 16));
                let a = catch(AssertUnwindSafe(|| str_to_fr(&dec, 10)));
                let b = catch(AssertUnwindSafe(|| str_to_fr(&hex, 16)));
                out.push(json!({"t": "codec", "f": "str", "res": "ok", "val": limbs16(&v),
                    "dec": matches!(a, Ok(Ok(w)) if w == v), "hex": matches!(b, Ok(Ok(w)) if w == v)}));
            }
        }
    }
}

fn fr_u64(v: &Fr) -> u64 {
    v.into_bigint().0[0]
}
fn fr_big_str(v: &Fr, radix: u32) -> String {
    BigUint::from_bytes_le(&crate::intern::fr_le_bytes(v)).to_str_radix(radix)
}

// ------------------------------------------------------------------------------------------------ C14
#[cfg(not(feature = "stateless"))]
/// a reader that returns at most `chunk` bytes per call
pub struct Chunked {
    pub data: Vec<u8>,
    pub pos: usize,
    pub chunk: usize,
}
/// the same, and every other call is answered with ErrorKind::Interrupted first (a signal arrived: the caller
/// is expected to retry, as the Read contract says)
pub struct Interrupting {
    pub inner: Chunked,
    pub calls: usize,
}
impl std::io::Read for Interrupting {
    fn read(&mut self, buf: &mut [u8]) -> std::io::Result<usize> {
        self.calls += 1;
        if self.calls % 2 == 1 {
            return Err(std::io::Error::new(std::io::ErrorKind::Interrupted, "interrupted"));
        }
        self.inner.read(buf)
    }
}
impl std::io::Read for Chunked {
    fn read(&mut self, buf: &mut [u8]) -> std::io::Result<usize> {
        let n = buf.len().min(self.chunk).min(self.data.len() - self.pos);
        buf[..n].copy_from_slice(&self.data[self.pos..self.pos + n]);
        self.pos += n;
        Ok(n)
    }
}

pub fn run_keygen(seed: u64, proc_tag: u64, unseeded: usize, out: &mut Vec<Value>, it: &mut Interner) {
    use rln::public::RLN;
    use std::io::Cursor;
    use std::sync::{Arc, Mutex};
    it.want_bytes = true;
    let mut r = ChaCha20Rng::seed_from_u64(seed);
    let mut seeds: Vec<Vec<u8>> = vec![
        vec![],
        vec![0],
        b"A seed phrase example".to_vec(),
        vec![0, 1, 2, 3, 4, 5, 6, 7, 8, 9],
        vec![7; 31],
        vec![7; 32],
        vec![7; 33],
        vec![1; 136],
        (0..10000u32).map(|k| (k % 256) as u8).collect(),
    ];
    // pairs differing only after byte 32 / only in the last byte
    let mut a = vec![9u8; 40];
    seeds.push(a.clone());
    a[39] = 10;
    seeds.push(a.clone());
    let mut b = vec![3u8; 33];
    seeds.push(b.clone());
    b[32] = 4;
    seeds.push(b);
    for _ in 0..4 {
        let n = r.gen_range(1..80);
        seeds.push((0..n).map(|_| r.gen()).collect());
    }
    let rln = Arc::new(Shared(crate::rln_exec::new_rln(20, &Value::Null).unwrap()));
    let evs: Arc<Mutex<Vec<(Value, Vec<Fr>)>>> = Arc::new(Mutex::new(Vec::new()));
    let record = |evs: &Arc<Mutex<Vec<(Value, Vec<Fr>)>>>, entry: &str, seed: Option<&Vec<u8>>, ext: bool, thr: usize, vals: Result<Vec<Fr>, String>, raw: Option<Vec<u8>>| {
        let mut ev = json!({"t": "keygen", "entry": entry, "ext": ext, "thr": thr, "proc": proc_tag, "seeded": seed.is_some()});
        if let Some(s) = seed {
            ev["seed"] = json!(s);
        }
        if let Some(rw) = raw {
            ev["raw"] = json!(rw);
        }
        match vals {
            Ok(v) => {
                ev["res"] = json!("ok");
                evs.lock().unwrap().push((ev, v));
            }
            Err(m) => {
                ev["res"] = json!("panic");
                ev["msg"] = json!(m);
                evs.lock().unwrap().push((ev, vec![]));
            }
        }
    };
    let decode = |raw: &[u8]| -> Vec<Fr> { raw.chunks(32).filter(|c| c.len() == 32).map(|c| Fr::from_le_bytes_mod_order(c)).collect() };
    let one_round = |thr: usize, evs: &Arc<Mutex<Vec<(Value, Vec<Fr>)>>>, rln: &RLN, seeds: &Vec<Vec<u8>>, n_unseeded: usize| {
        for s in seeds {
            // typed entry points
            record(evs, "protocol", Some(s), false, thr, catch(AssertUnwindSafe(|| { let (a, b) = seeded_keygen(s); vec![a, b] })), None);
            record(evs, "protocol", Some(s), true, thr, catch(AssertUnwindSafe(|| { let (a, b, c, d) = extended_seeded_keygen(s); vec![a, b, c, d] })), None);
            // byte-level entry points
            let mut o = Vec::new();
            let rr = catch(AssertUnwindSafe(|| rln.seeded_key_gen(Cursor::new(s.clone()), &mut o)));
            record(evs, "rln", Some(s), false, thr, rr.map(|_| decode(&o)), Some(o.clone()));
            let mut o = Vec::new();
            let rr = catch(AssertUnwindSafe(|| rln.seeded_extended_key_gen(Cursor::new(s.clone()), &mut o)));
            record(evs, "rln", Some(s), true, thr, rr.map(|_| decode(&o)), Some(o.clone()));
            // ... and the same seed delivered by a reader that hands out a few bytes per call (a pipe, a chained reader)
            if thr == 0 {
                {
                    let mut o = Vec::new();
                    let rr = catch(AssertUnwindSafe(|| rln.seeded_key_gen(Interrupting { inner: Chunked { data: s.clone(), pos: 0, chunk: 50 }, calls: 0 }, &mut o)));
                    record(evs, "rln", Some(s), false, thr, rr.map(|_| decode(&o)), Some(o.clone()));
                }
                for chunk in [1usize, 7, 64] {
                    let mut o = Vec::new();
                    let rr = catch(AssertUnwindSafe(|| rln.seeded_key_gen(Chunked { data: s.clone(), pos: 0, chunk }, &mut o)));
                    record(evs, "rln", Some(s), false, thr, rr.map(|_| decode(&o)), Some(o.clone()));
                    let mut o = Vec::new();
                    let rr = catch(AssertUnwindSafe(|| rln.seeded_extended_key_gen(Chunked { data: s.clone(), pos: 0, chunk }, &mut o)));
                    record(evs, "rln", Some(s), true, thr, rr.map(|_| decode(&o)), Some(o.clone()));
                }
            }
            // FFI
            let ctx: *const RLN = rln;
            let ib = rln::ffi::Buffer { ptr: s.as_ptr(), len: s.len() };
            let mut ob = rln::ffi::Buffer { ptr: std::ptr::null(), len: 0 };
            let ok = rln::ffi::seeded_key_gen(ctx, &ib, &mut ob);
            let raw = if ok && !ob.ptr.is_null() { unsafe { std::slice::from_raw_parts(ob.ptr, ob.len) }.to_vec() } else { vec![] };
            record(evs, "ffi", Some(s), false, thr, if ok { Ok(decode(&raw)) } else { Err("ffi false".into()) }, Some(raw));
            let mut ob = rln::ffi::Buffer { ptr: std::ptr::null(), len: 0 };
            let ok = rln::ffi::seeded_extended_key_gen(ctx, &ib, &mut ob);
            let raw = if ok && !ob.ptr.is_null() { unsafe { std::slice::from_raw_parts(ob.ptr, ob.len) }.to_vec() } else { vec![] };
            record(evs, "ffi", Some(s), true, thr, if ok { Ok(decode(&raw)) } else { Err("ffi false".into()) }, Some(raw));
        }
        for k in 0..n_unseeded {
            match k % 4 {
                0 => record(evs, "protocol", None, false, thr, catch(AssertUnwindSafe(|| { let (a, b) = keygen(); vec![a, b] })), None),
                1 => record(evs, "protocol", None, true, thr, catch(AssertUnwindSafe(|| { let (a, b, c, d) = extended_keygen(); vec![a, b, c, d] })), None),
                2 => {
                    let mut o = Vec::new();
                    let rr = catch(AssertUnwindSafe(|| rln.key_gen(&mut o)));
                    record(evs, "rln", None, false, thr, rr.map(|_| decode(&o)), Some(o.clone()));
                }
                _ => {
                    let mut o = Vec::new();
                    let rr = catch(AssertUnwindSafe(|| rln.extended_key_gen(&mut o)));
                    record(evs, "rln", None, true, thr, rr.map(|_| decode(&o)), Some(o.clone()));
                }
            }
        }
    };
    // sequentially, then from 8 concurrent threads
    one_round(0, &evs, &rln, &seeds, unseeded);
    let mut hs = Vec::new();
    for t in 1..=8usize {
        let (evs, rln, seeds) = (evs.clone(), rln.clone(), seeds.clone());
        hs.push(std::thread::spawn(move || {
            quiet_panics();
            let _ = (&evs, &rln, &seeds);
            // (closure one_round is not Send; repeat its seeded part inline)
            for s in seeds.iter() {
                let v = catch(AssertUnwindSafe(|| { let (a, b) = seeded_keygen(s); vec![a, b] }));
                let mut ev = json!({"t": "keygen", "entry": "protocol", "ext": false, "thr": t, "proc": proc_tag, "seeded": true, "seed": s});
                ev["res"] = json!(if v.is_ok() { "ok" } else { "panic" });
                evs.lock().unwrap().push((ev, v.unwrap_or_default()));
                let v = catch(AssertUnwindSafe(|| { let (a, b, c, d) = extended_seeded_keygen(s); vec![a, b, c, d] }));
                let mut ev = json!({"t": "keygen", "entry": "protocol", "ext": true, "thr": t, "proc": proc_tag, "seeded": true, "seed": s});
                ev["res"] = json!(if v.is_ok() { "ok" } else { "panic" });
                evs.lock().unwrap().push((ev, v.unwrap_or_default()));
                let mut o = Vec::new();
                let rr = catch(AssertUnwindSafe(|| rln.seeded_extended_key_gen(Cursor::new(s.clone()), &mut o)));
                let mut ev = json!({"t": "keygen", "entry": "rln", "ext": true, "thr": t, "proc": proc_tag, "seeded": true, "seed": s, "raw": o});
                ev["res"] = json!(if rr.is_ok() { "ok" } else { "panic" });
                let vals: Vec<Fr> = o.chunks(32).filter(|c| c.len() == 32).map(|c| Fr::from_le_bytes_mod_order(c)).collect();
                evs.lock().unwrap().push((ev, vals));
            }
            for k in 0..10 {
                let v = catch(AssertUnwindSafe(|| if k % 2 == 0 { let (a, b) = keygen(); vec![a, b] } else { let (a, b, c, d) = extended_keygen(); vec![a, b, c, d] }));
                let mut ev = json!({"t": "keygen", "entry": "protocol", "ext": k % 2 == 1, "thr": t, "proc": proc_tag, "seeded": false});
                ev["res"] = json!(if v.is_ok() { "ok" } else { "panic" });
                evs.lock().unwrap().push((ev, v.unwrap_or_default()));
            }
        }));
    }
    for h in hs {
        let _ = h.join();
    }
    let all = Arc::try_unwrap(evs).ok().unwrap().into_inner().unwrap();
    for (mut ev, vals) in all {
        // hash facts: commitment = H1[secret], secret = H2[trapdoor, nullifier]
        if ev["res"] == "ok" {
            let ext = ev["ext"].as_bool().unwrap();
            if ext && vals.len() == 4 {
                it.hash2(&vals[0], &vals[1]);
                it.hash1(&vals[2]);
            } else if !ext && vals.len() == 2 {
                it.hash1(&vals[0]);
            }
            ev["vals"] = json!(vals.iter().map(|v| it.id(v)).collect::<Vec<_>>());
            // the same as bytes (so that traces of several processes can be judged together), with the
            // hash facts the relations need
            ev["valb"] = json!(vals.iter().map(crate::intern::fr_le_bytes).collect::<Vec<_>>());
            if ext && vals.len() == 4 {
                ev["h2_tn"] = json!(crate::intern::fr_le_bytes(&it.hash2(&vals[0], &vals[1])));
                ev["h1_s"] = json!(crate::intern::fr_le_bytes(&it.hash1(&vals[2])));
            } else if !ext && vals.len() == 2 {
                ev["h1_s"] = json!(crate::intern::fr_le_bytes(&it.hash1(&vals[0])));
            }
        }
        out.push(ev);
    }
}


// ---- C10: the message a prover emits, through writers of every legal kind --------------------------------------
/// a writer that accepts at most `max` bytes per call (a pipe, a socket): legal `std::io::Write` behaviour
struct ChunkWriter {
    buf: Vec<u8>,
    max: usize,
}
impl std::io::Write for ChunkWriter {
    fn write(&mut self, b: &[u8]) -> std::io::Result<usize> {
        let n = b.len().min(self.max);
        self.buf.extend_from_slice(&b[..n]);
        Ok(n)
    }
    fn flush(&mut self) -> std::io::Result<()> {
        Ok(())
    }
}

/// One proving request, emitted through a growable vector, through writers taking 100 / 7 / 1 bytes per call and into a
/// fixed buffer that is too small. Recorded: what arrived (length, the 160 public-value bytes, whether the complete
/// message verifies) and the result flag. The proof part is randomised, the public values are not.
pub fn run_messages(seed: u64, out: &mut Vec<Value>) {
    use crate::rln_exec::{enc_fr, new_rln};
    use rln::hashers::poseidon_hash;
    use std::io::Cursor;
    let mut r = ChaCha20Rng::seed_from_u64(seed ^ 0x6d657373);
    let Ok(mut rln) = new_rln(20, &Value::Null) else { return };
    for round in 0..2usize {
        let s = pick_fr(&mut r);
        let lim = Fr::from(100u64);
        let idx = [5usize, (1 << 19) + 1][round];
        let rc = poseidon_hash(&[poseidon_hash(&[s]), lim]);
        let _ = rln.set_leaf(idx, Cursor::new(enc_fr(&rc)));
        let sig: Vec<u8> = (0..[0usize, 137][round]).map(|_| r.gen()).collect();
        let req = prepare_prove_input(s, idx, lim, Fr::from(3u64), pick_fr(&mut r), &sig);
        let mut reference: Option<Vec<u8>> = None;
        for max in [usize::MAX, 100, 7, 1] {
            let mut w = ChunkWriter { buf: Vec::new(), max };
            let res = catch(AssertUnwindSafe(|| rln.generate_rln_proof(Cursor::new(req.clone()), &mut w)));
            let ok = matches!(res, Ok(Ok(())));
            let got = w.buf;
            let mut ev = json!({"t": "codec", "f": "message", "writer": if max == usize::MAX { 0 } else { max as u64 }, "res": if ok { "ok" } else { "err" },
                                "len": got.len(), "pub": if got.len() >= 288 { got[128..288].to_vec() } else { Vec::new() }});
            if max == usize::MAX && ok {
                reference = Some(got.clone());
            }
            ev["ref_pub"] = json!(reference.as_ref().map(|g| g[128..288.min(g.len())].to_vec()).unwrap_or_default());
            let mut m = got.clone();
            m.extend((sig.len() as u64).to_le_bytes());
            m.extend(&sig);
            let v = catch(AssertUnwindSafe(|| rln.verify_rln_proof(Cursor::new(m))));
            ev["accepted"] = json!(matches!(v, Ok(Ok(true))));
            out.push(ev);
        }
        // a fixed buffer that cannot hold the message: the call must not report success
        let mut small = [0u8; 200];
        let res = catch(AssertUnwindSafe(|| rln.generate_rln_proof(Cursor::new(req.clone()), &mut small[..])));
        out.push(json!({"t": "codec", "f": "message_small", "res": if matches!(res, Ok(Ok(()))) { "ok" } else { "err" }}));
    }
}
