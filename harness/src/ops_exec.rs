// C19 / C20 recorders: operator evaluations on the boundary grid, and random well-formed graphs.
use crate::proto_exec::{big_fr, fr_big, modulus};
use crate::util::*;
use num_bigint::BigUint;
use rand::{Rng, RngCore, SeedableRng};
use rand_chacha::ChaCha20Rng;
use rln::circuit::iden3calc::graph::{fr_to_u256, u256_to_fr, Node, Operation, TresOperation, UnoOperation};
use rln::circuit::Fr;
use ruint::aliases::U256;
use serde_json::{json, Value};
use std::panic::AssertUnwindSafe;

pub const OPS: [(&str, Operation); 20] = [
    ("Mul", Operation::Mul), ("Div", Operation::Div), ("Add", Operation::Add), ("Sub", Operation::Sub), ("Pow", Operation::Pow),
    ("Idiv", Operation::Idiv), ("Mod", Operation::Mod), ("Eq", Operation::Eq), ("Neq", Operation::Neq), ("Lt", Operation::Lt),
    ("Gt", Operation::Gt), ("Leq", Operation::Leq), ("Geq", Operation::Geq), ("Land", Operation::Land), ("Lor", Operation::Lor),
    ("Shl", Operation::Shl), ("Shr", Operation::Shr), ("Bor", Operation::Bor), ("Band", Operation::Band), ("Bxor", Operation::Bxor),
];

fn le(b: &BigUint) -> Vec<u8> {
    b.to_bytes_le().into_iter().rev().skip_while(|x| *x == 0).collect::<Vec<_>>().into_iter().rev().collect()
}
fn big_u256(b: &BigUint) -> U256 {
    let mut v = b.to_bytes_le();
    v.resize(32, 0);
    U256::from_le_bytes::<32>(v.try_into().unwrap())
}
fn u256_big(u: &U256) -> BigUint {
    BigUint::from_bytes_le(&u.to_le_bytes::<32>())
}

pub fn grid(ks: &[usize]) -> Vec<BigUint> {
    let p = modulus();
    let one = BigUint::from(1u8);
    let mut g = vec![BigUint::from(0u8), one.clone(), BigUint::from(2u8), (&p - &one) >> 1, ((&p - &one) >> 1) + &one, &p - BigUint::from(2u8), &p - &one];
    for &k in ks {
        let b = &one << k;
        for v in [&b - &one, b.clone(), &b + &one] {
            if v < p {
                g.push(v);
            }
        }
    }
    g.sort();
    g.dedup();
    g
}

fn advice(op: &str, a: &BigUint, b: &BigUint, c: &BigUint) -> BigUint {
    let p = modulus();
    let zero = BigUint::from(0u8);
    match op {
        "Mul" => (a * b) / &p,
        "Pow" => (a * a) / &p, // advice for the exponent 2
        "Div" => if b == &zero || c * b < *a { zero } else { (c * b - a) / &p },
        "Mod" => if b == &zero { zero } else { a / b },
        _ => zero,
    }
}

fn one_eval(name: &str, op: Operation, a: &BigUint, b: &BigUint) -> Value {
    let (fa, fb) = (big_fr(a), big_fr(b));
    let (ua, ub) = (big_u256(a), big_u256(b));
    let mut ev = json!({"t": "op", "op": name, "a": le(a), "b": le(b)});
    // Montgomery evaluator (the one the witness calculator runs); Pow is not accepted by it
    if name != "Pow" {
        match catch(AssertUnwindSafe(|| op.eval_fr(fa, fb))) {
            Ok(c) => {
                let cb = fr_big(&c);
                ev["mont"] = json!({"res": "ok", "c": le(&cb), "q": le(&advice(name, a, b, &cb))});
            }
            Err(m) => ev["mont"] = json!({"res": "panic", "msg": m.chars().take(80).collect::<String>()}),
        }
    }
    if name == "Pow" {
        // certificate for the judge: the square-and-multiply chain of a^b, every product with its quotient
        // (computed here with big integers, independently of the evaluator; TLC checks every step and the end value)
        let p = modulus();
        let mut acc = BigUint::from(1u8);
        let mut cert = Vec::new();
        for i in (0..b.bits()).rev() {
            let sq_full = &acc * &acc;
            let (sq_q, sq) = (&sq_full / &p, &sq_full % &p);
            let (out, mq) = if b.bit(i) {
                let m = &sq * a;
                (&m % &p, &m / &p)
            } else {
                (sq.clone(), BigUint::from(0u8))
            };
            cert.push(json!({"s": le(&sq), "sq": le(&sq_q), "out": le(&out), "mq": le(&mq)}));
            acc = out;
        }
        ev["cert"] = json!(cert);
    }
    match catch(AssertUnwindSafe(|| op.eval(ua, ub))) {
        Ok(c) => {
            let cb = u256_big(&c);
            ev["int"] = json!({"res": "ok", "c": le(&cb), "q": le(&advice(name, a, b, &cb))});
        }
        Err(m) => ev["int"] = json!({"res": "panic", "msg": m.chars().take(80).collect::<String>()}),
    }
    ev
}

/// zkexec ops --seed N --tier quick|thorough --out T
pub fn run_ops(seed: u64, thorough: bool, out: &mut Vec<Value>) {
    let mut r = ChaCha20Rng::seed_from_u64(seed);
    let p = modulus();
    let ks_q: Vec<usize> = vec![8, 16, 31, 32, 33, 63, 64, 65, 127, 128, 129, 191, 192, 193, 252, 253, 254];
    let ks_all: Vec<usize> = (8..=254).collect();
    let first = grid(if thorough { &ks_all } else { &ks_q });
    // second operands: boundary values and every interesting shift count
    let mut second = grid(&[8, 64, 128, 192, 253]);
    for k in [3u32, 62, 63, 64, 65, 127, 128, 129, 191, 192, 193, 252, 253, 254, 255, 256, 257, 300] {
        second.push(BigUint::from(k));
    }
    for d in [1u32, 2, 3, 63, 64, 65, 128, 253, 254, 255, 256] {
        second.push(&p - BigUint::from(d)); // counts just below p: the shift goes the other way
    }
    second.sort();
    second.dedup();
    let rnd = |r: &mut ChaCha20Rng| {
        let mut b = [0u8; 32];
        r.fill_bytes(&mut b);
        BigUint::from_bytes_le(&b) % &p
    };
    for (name, op) in OPS.iter() {
        if *name == "Pow" {
            // integer evaluator only; small exponents so that the judge can follow with products
            let one = BigUint::from(1u8);
            let exps: Vec<BigUint> = vec![BigUint::from(0u8), one.clone(), BigUint::from(2u8), BigUint::from(3u8), BigUint::from(255u8),
                                          &one << 64, (&p - &one) >> 1, &p - BigUint::from(2u8), &p - &one, rnd(&mut r)];
            let mut bases: Vec<BigUint> = first.iter().step_by(if thorough { 5 } else { 13 }).cloned().collect();
            for v in [BigUint::from(0u8), one.clone(), BigUint::from(2u8), &p - &one] {
                if !bases.contains(&v) {
                    bases.push(v);
                }
            }
            for a in bases.iter() {
                for e in exps.iter() {
                    out.push(one_eval(name, *op, a, e));
                }
            }
            continue;
        }
        let stride = if thorough { 1 } else { 2 };
        for (i, a) in first.iter().enumerate() {
            for (j, b) in second.iter().enumerate() {
                if !thorough && (i + j) % stride != 0 {
                    continue;
                }
                out.push(one_eval(name, *op, a, b));
            }
        }
        for _ in 0..(if thorough { 4000 } else { 150 }) {
            let (a, b) = (rnd(&mut r), rnd(&mut r));
            out.push(one_eval(name, *op, &a, &b));
        }
        // equal operands, and operands summing to p
        for a in first.iter().step_by(3) {
            out.push(one_eval(name, *op, a, a));
            out.push(one_eval(name, *op, a, &((&p - a) % &p)));
        }
    }
    // every operator on the SAME operands back to back, starting with another operator each time (state kept between
    // evaluations and keyed by the operands alone - e.g. a shift memo that forgets the direction - shows only this way)
    {
        let mut pairs: Vec<(BigUint, BigUint)> = Vec::new();
        for k in [1u32, 3, 63, 64, 65, 128, 253, 254] {
            pairs.push((rnd(&mut r), BigUint::from(k)));
            pairs.push((BigUint::from(k) + BigUint::from(5u8), BigUint::from(k)));
            pairs.push((rnd(&mut r), &p - BigUint::from(k)));
        }
        for _ in 0..(if thorough { 400 } else { 30 }) {
            pairs.push((rnd(&mut r), rnd(&mut r)));
        }
        let ops: Vec<_> = OPS.iter().filter(|(n, _)| *n != "Pow").collect();
        for (n, (a, b)) in pairs.iter().enumerate() {
            for t in 0..ops.len() {
                let (name, op) = ops[(n * 7 + t) % ops.len()];
                out.push(one_eval(name, *op, a, b));
            }
            // and the two shifts alternating on one amount
            for (name, op) in OPS.iter().filter(|(n, _)| *n == "Shl" || *n == "Shr") {
                out.push(one_eval(name, *op, &(a + BigUint::from(1u8)) , b));
            }
        }
    }
    // unary and ternary operators
    for a in first.iter() {
        let fa = big_fr(a);
        let ua = big_u256(a);
        let mut ev = json!({"t": "uno", "op": "Neg", "a": le(a)});
        ev["mont"] = match catch(AssertUnwindSafe(|| UnoOperation::Neg.eval_fr(fa))) { Ok(c) => json!({"res": "ok", "c": le(&fr_big(&c))}), Err(_) => json!({"res": "panic"}) };
        ev["int"] = match catch(AssertUnwindSafe(|| UnoOperation::Neg.eval(ua))) { Ok(c) => json!({"res": "ok", "c": le(&u256_big(&c))}), Err(_) => json!({"res": "panic"}) };
        out.push(ev);
        let mut ev = json!({"t": "uno", "op": "Id", "a": le(a)});
        ev["int"] = match catch(AssertUnwindSafe(|| UnoOperation::Id.eval(ua))) { Ok(c) => json!({"res": "ok", "c": le(&u256_big(&c))}), Err(_) => json!({"res": "panic"}) };
        out.push(ev);
        for (b, c) in [(BigUint::from(5u8), &p - BigUint::from(1u8)), (rnd(&mut r), rnd(&mut r))] {
            let mut ev = json!({"t": "tres", "op": "TernCond", "a": le(a), "b": le(&b), "c": le(&c)});
            ev["mont"] = match catch(AssertUnwindSafe(|| TresOperation::TernCond.eval_fr(fa, big_fr(&b), big_fr(&c)))) { Ok(v) => json!({"res": "ok", "c": le(&fr_big(&v))}), Err(_) => json!({"res": "panic"}) };
            ev["int"] = match catch(AssertUnwindSafe(|| TresOperation::TernCond.eval(ua, big_u256(&b), big_u256(&c)))) { Ok(v) => json!({"res": "ok", "c": le(&u256_big(&v))}), Err(_) => json!({"res": "panic"}) };
            out.push(ev);
        }
    }
    let _ = (fr_to_u256, u256_to_fr, Node::Input(0), r.gen::<u8>());
}

// ------------------------------------------------------------------------------------------------ C20
use rln::circuit::iden3calc::storage::{deserialize_witnesscalc_graph, serialize_witnesscalc_graph};
use rln::circuit::iden3calc::{calc_witness, graph};
use std::collections::HashMap;

const MONT_OPS: [&str; 19] = ["Mul", "Div", "Add", "Sub", "Idiv", "Mod", "Eq", "Neq", "Lt", "Gt", "Leq", "Geq", "Land", "Lor", "Shl", "Shr", "Bor", "Band", "Bxor"];

fn op_by_name(n: &str) -> Operation {
    OPS.iter().find(|(m, _)| *m == n).unwrap().1
}

fn pick_val(r: &mut ChaCha20Rng) -> BigUint {
    let p = modulus();
    let one = BigUint::from(1u8);
    match r.gen_range(0..9) {
        0 => BigUint::from(0u8),
        1 => one,
        2 => &p - &one,
        3 => (&p - &one) >> 1,
        4 => BigUint::from(r.gen_range(0u32..300)),
        5 => &one << r.gen_range(1..254usize),
        6 => &p - BigUint::from(r.gen_range(1u32..300)),
        _ => {
            let mut b = [0u8; 32];
            r.fill_bytes(&mut b);
            BigUint::from_bytes_le(&b) % &p
        }
    }
}


#[allow(clippy::too_many_arguments)]
fn graph_event(g: usize, nodes: &[Node], jn: &[Value], outputs: &[usize], layout: &[(String, usize, usize)], named: &mut Vec<(String, Vec<BigUint>)>,
               buf: &[BigUint], scratch: &mut Vec<u8>, r: &mut ChaCha20Rng) -> Value {
let n = nodes.len();
let ubuf: Vec<U256> = buf.iter().map(big_u256).collect();
    let mut ev = json!({"t": "graph", "g": g, "nodes": jn, "outputs": outputs, "inputs": buf.iter().map(le).collect::<Vec<_>>(),
                        "layout": layout.iter().map(|(n, o, l)| json!([n, o, l])).collect::<Vec<_>>()});
    // every node's value (evaluate with all nodes as outputs), with advice for the relational operators
    let all: Vec<usize> = (0..n).collect();
    match catch(AssertUnwindSafe(|| graph::evaluate(&nodes, &ubuf, &all))) {
        Ok(vals) => {
            let vb: Vec<BigUint> = vals.iter().map(fr_big).collect();
            let mut qs = Vec::new();
            for (i, nd) in nodes.iter().enumerate() {
                qs.push(match nd {
                    Node::Op(op, a, b) => {
                        let name = OPS.iter().find(|(_, o)| o == op).unwrap().0;
                        le(&advice(name, &vb[*a], &vb[*b], &vb[i]))
                    }
                    _ => vec![],
                });
            }
            ev["values"] = json!(vb.iter().map(le).collect::<Vec<_>>());
            ev["q"] = json!(qs);
            ev["res"] = json!("ok");
        }
        Err(m) => {
            ev["res"] = json!("panic");
            ev["msg"] = json!(m.chars().take(100).collect::<String>());
        }
    }
    match catch(AssertUnwindSafe(|| graph::evaluate(&nodes, &ubuf, &outputs))) {
        Ok(o) => ev["out"] = json!(o.iter().map(|v| le(&fr_big(v))).collect::<Vec<_>>()),
        Err(_) => ev["out_panic"] = json!(true),
    }
    // storage round trip and the stored graph evaluated through calc_witness under 3 insertion orders
    let info: HashMap<String, (usize, usize)> = layout.iter().map(|(n, o, l)| (n.clone(), (*o, *l))).collect();
    let mut bytes = Vec::new();
    let ser = catch(AssertUnwindSafe(|| serialize_witnesscalc_graph(&mut bytes, &nodes.to_vec(), outputs, &info)));
    ev["ser"] = json!(matches!(ser, Ok(Ok(()))));
    if matches!(ser, Ok(Ok(()))) {
        // read back through a reader that delivers the stored bytes at once or in pieces of 1, 2 or 13 bytes
        let rb: Box<dyn std::io::Read> = match g % 4 {
            0 => Box::new(std::io::Cursor::new(bytes.clone())),
            1 => Box::new(crate::misc_exec::Chunked { data: bytes.clone(), pos: 0, chunk: 1 }),
            2 => Box::new(crate::misc_exec::Chunked { data: bytes.clone(), pos: 0, chunk: 2 }),
            _ => Box::new(crate::misc_exec::Chunked { data: bytes.clone(), pos: 0, chunk: 13 }),
        };
        match catch(AssertUnwindSafe(move || deserialize_witnesscalc_graph(rb))) {
            Ok(Ok((n2, o2, i2))) => {
                ev["roundtrip"] = json!({"nodes": n2 == nodes, "outputs": o2 == outputs, "inputs": i2 == info});
            }
            _ => ev["roundtrip"] = json!({"nodes": false, "outputs": false, "inputs": false}),
        }
        let mut outs = Vec::new();
        for ord in 0..3 {
            match ord {
                1 => named.reverse(),
                2 => { let k = r.gen_range(0..named.len()); named.rotate_left(k); }
                _ => {}
            }
            let it = named.iter().map(|(n, vs)| (n.clone(), vs.iter().map(big_fr).collect::<Vec<_>>()));
            // the stored graph is handed over in ONE long-lived buffer that is overwritten in place from graph to graph
            scratch.clear();
            scratch.extend_from_slice(&bytes);
            match catch(AssertUnwindSafe(|| calc_witness(it, &scratch[..]))) {
                Ok(Ok(o)) => outs.push(json!(o.iter().map(|v| le(&fr_big(v))).collect::<Vec<_>>())),
                Ok(Err(e)) => { let _ = e; outs.push(json!([[256]])) } // (an error: a value no output vector can equal; same sort for the judge)
                Err(m) => { let _ = m; outs.push(json!([[257]])) }
            }
        }
        ev["calc"] = json!(outs);
    }
    ev
}

/// zkexec graphs --seed N --count K --out T : random well-formed graphs, evaluated, stored, reloaded
pub fn run_graphs(seed: u64, count: usize, out: &mut Vec<Value>) {
    let mut r = ChaCha20Rng::seed_from_u64(seed);
    let mut scratch: Vec<u8> = Vec::with_capacity(1 << 20);
    for g in 0..count {
        // declared input layout: slot 0 is the constant 1; named vectors at random offsets (gaps allowed)
        let nnames = if g % 7 == 3 { r.gen_range(30..50usize) } else { r.gen_range(1..5usize) }; // (some with a long input map)
        let mut layout: Vec<(String, usize, usize)> = Vec::new();
        let mut off = 1usize;
        for k in 0..nnames {
            off += r.gen_range(0..2usize);
            let len = r.gen_range(1..4usize);
            layout.push((format!("in{}_{}", k, ["a", "zz", "M", "x0"][r.gen_range(0..4)]), off, len));
            off += len;
        }
        let nslots = off + r.gen_range(0..2usize);
        let mut named: Vec<(String, Vec<BigUint>)> = layout.iter().map(|(n, _, l)| (n.clone(), (0..*l).map(|_| pick_val(&mut r)).collect())).collect();
        // nodes: inputs may appear anywhere (not only as a prefix), every reference is backwards
        let n = r.gen_range(1..(if g % 10 == 0 { 60 } else { 25 }));
        let mut nodes: Vec<Node> = Vec::new();
        let mut jn: Vec<Value> = Vec::new();
        for i in 0..n {
            let kind = if i == 0 { r.gen_range(0..2) } else { r.gen_range(0..7) };
            match kind {
                0 => {
                    // an input slot that the layout covers (or slot 0)
                    let slot = if r.gen_bool(0.15) { 0 } else { let (_, o, l) = &layout[r.gen_range(0..layout.len())]; o + r.gen_range(0..*l) };
                    nodes.push(Node::Input(slot));
                    jn.push(json!({"k": "in", "i": slot}));
                }
                1 => {
                    let v = pick_val(&mut r);
                    nodes.push(Node::MontConstant(big_fr(&v)));
                    jn.push(json!({"k": "const", "v": le(&v)}));
                }
                2 => {
                    let a = r.gen_range(0..i);
                    nodes.push(Node::UnoOp(UnoOperation::Neg, a));
                    jn.push(json!({"k": "uno", "op": "Neg", "a": a}));
                }
                6 => {
                    let (a, b, c) = (r.gen_range(0..i), r.gen_range(0..i), r.gen_range(0..i));
                    nodes.push(Node::TresOp(TresOperation::TernCond, a, b, c));
                    jn.push(json!({"k": "tres", "a": a, "b": b, "c": c}));
                }
                _ => {
                    let name = MONT_OPS[r.gen_range(0..MONT_OPS.len())];
                    let (a, b) = (r.gen_range(0..i), r.gen_range(0..i));
                    nodes.push(Node::Op(op_by_name(name), a, b));
                    jn.push(json!({"k": "op", "op": name, "a": a, "b": b}));
                }
            }
        }
        let nout = r.gen_range(1..5usize.min(n + 1));
        let outputs: Vec<usize> = (0..nout).map(|_| r.gen_range(0..n)).collect();
        // the inputs buffer as the layout prescribes
        let mut buf: Vec<BigUint> = vec![BigUint::from(0u8); nslots.max(1)];
        buf[0] = BigUint::from(1u8);
        for ((_, o, _), (_, vs)) in layout.iter().zip(named.iter()) {
            for (k, v) in vs.iter().enumerate() {
                buf[o + k] = v.clone();
            }
        }
        let ev = graph_event(g, &nodes, &jn, &outputs, &layout, &mut named, &buf, &mut scratch, &mut r);
        out.push(ev);
        // the twin: the same graph with ONE operator exchanged (its stored form has the same length), evaluated right after
        // it from the same buffer
        if let Some(i) = nodes.iter().position(|nd| matches!(nd, Node::Op(op, _, _) if [Operation::Add, Operation::Sub, Operation::Mul].contains(op))) {
            if let Node::Op(op, a, b) = nodes[i].clone() {
                let (op2, name2) = if op == Operation::Add { (Operation::Sub, "Sub") } else { (Operation::Add, "Add") };
                let mut nodes2 = nodes.clone();
                nodes2[i] = Node::Op(op2, a, b);
                let mut jn2 = jn.clone();
                jn2[i] = json!({"k": "op", "op": name2, "a": a, "b": b});
                let ev2 = graph_event(g + 100000, &nodes2, &jn2, &outputs, &layout, &mut named, &buf, &mut scratch, &mut r);
                out.push(ev2);
            }
        }
    }
}

// ------------------------------------------------------------------------------------------------ C05
/// zkexec witness --seed N --count K --cases C --out T
/// Input assignments for the bundled circuit (limb-boundary and near-modulus values), the witness computed by the
/// graph evaluator (three insertion orders on some cases). The reference generator (rln.wasm) is run by the driver
/// on the same cases file.
pub fn run_witness(seed: u64, count: usize, cases: &mut Vec<Value>, out: &mut Vec<Value>) {
    use rln::circuit::{calculate_rln_witness, graph_from_folder};
    let mut r = ChaCha20Rng::seed_from_u64(seed);
    let p = modulus();
    let one = BigUint::from(1u8);
    let names = ["identitySecret", "userMessageLimit", "messageId", "pathElements", "identityPathIndex", "x", "externalNullifier"];
    let mut special = |r: &mut ChaCha20Rng| -> BigUint {
        match r.gen_range(0..10) {
            0 => BigUint::from(0u8),
            1 => one.clone(),
            2 => &p - &one,
            3 => &p - BigUint::from(r.gen_range(2u32..70000)),
            4 => (&one << (64 * r.gen_range(1..4usize))) - &one,            // 2^64k - 1
            5 => &one << (64 * r.gen_range(1..4usize)),                     // 2^64k
            6 => (&one << (64 * r.gen_range(1..4usize))) + &one,
            7 => (&p - &one) >> 1,
            8 => &one << r.gen_range(1..254usize),
            _ => {
                let mut b = [0u8; 32];
                r.fill_bytes(&mut b);
                BigUint::from_bytes_le(&b) % &p
            }
        }
    };
    #[allow(clippy::type_complexity)]
    let mut prev: Option<(BigUint, BigUint, BigUint, Vec<BigUint>, Vec<u64>, u64, u64)> = None;
    for id in 0..count {
        let lim: u64 = [1u64, 2, 100, 255, 256, 65535, 65536][r.gen_range(0..7)];
        let mid: u64 = match r.gen_range(0..4) { 0 => 0, 1 => lim - 1, _ => r.gen_range(0..lim) };
        // some assignments the reference generator must reject (outside the property's quantifier; recorded for the record)
        let bad = id % 12 == 11;
        let mid_v = if bad && id % 24 == 11 { lim } else { mid };
        let bits: Vec<u64> = (0..20).map(|k| if bad && id % 24 == 23 && k == 7 { 2 } else { match id % 5 { 0 => 0, 1 => 1, 2 => (k % 2) as u64, _ => r.gen_range(0..2) } }).collect();
        let mut inputs = serde_json::Map::new();
        let mut s = special(&mut r);
        let mut x = special(&mut r);
        let mut e = special(&mut r);
        let mut path: Vec<BigUint> = (0..20).map(|_| special(&mut r)).collect();
        let (mut lim, mut mid_v, mut bits) = (lim, mid_v, bits);
        // histories: every fourth assignment is derived from the one evaluated just before it - the same values in
        // other places (two path elements swapped, direction bits rotated, x and the external nullifier exchanged)
        // or the very same assignment again - so that state kept between evaluations would show
        if id % 4 == 3 && !bad {
            if let Some((ps, px, pe, ppath, pbits, plim, pmid)) = prev.clone() {
                s = ps; x = px; e = pe; path = ppath; bits = pbits; lim = plim; mid_v = pmid;
                match (id / 4) % 4 {
                    0 => {
                        let i = r.gen_range(0..20usize);
                        let j = (i + 1 + r.gen_range(0..19usize)) % 20;
                        path.swap(i, j);
                    }
                    1 => bits.rotate_left(1 + r.gen_range(0..18usize)),
                    2 => std::mem::swap(&mut x, &mut e),
                    _ => {}
                }
            }
        }
        prev = Some((s.clone(), x.clone(), e.clone(), path.clone(), bits.clone(), lim, mid_v));
        inputs.insert("identitySecret".into(), json!([s.to_string()]));
        inputs.insert("userMessageLimit".into(), json!([lim.to_string()]));
        inputs.insert("messageId".into(), json!([mid_v.to_string()]));
        inputs.insert("pathElements".into(), json!(path.iter().map(|v| v.to_string()).collect::<Vec<_>>()));
        inputs.insert("identityPathIndex".into(), json!(bits.iter().map(|v| v.to_string()).collect::<Vec<_>>()));
        inputs.insert("x".into(), json!([x.to_string()]));
        inputs.insert("externalNullifier".into(), json!([e.to_string()]));
        let mut order: Vec<&str> = names.to_vec();
        if id % 3 == 1 { order.reverse(); }
        if id % 3 == 2 { order.rotate_left(3); }
        cases.push(json!({"id": id, "order": order, "inputs": inputs}));
        let vals: HashMap<&str, Vec<Fr>> = HashMap::from([
            ("identitySecret", vec![big_fr(&s)]), ("userMessageLimit", vec![Fr::from(lim)]), ("messageId", vec![Fr::from(mid_v)]),
            ("pathElements", path.iter().map(big_fr).collect()), ("identityPathIndex", bits.iter().map(|b| Fr::from(*b)).collect()),
            ("x", vec![big_fr(&x)]), ("externalNullifier", vec![big_fr(&e)])]);
        let mut ev = json!({"t": "witness", "id": id});
        let norders = if id % 8 == 0 { 3 } else { 1 };
        let mut vecs = Vec::new();
        for o in 0..norders {
            let mut ord: Vec<&str> = names.to_vec();
            match o { 1 => ord.reverse(), 2 => ord.rotate_left(4), _ => {} }
            let it = ord.iter().map(|n| (n.to_string(), vals[n].clone()));
            match catch(AssertUnwindSafe(|| calculate_rln_witness(it, graph_from_folder()))) {
                Ok(Ok(w)) => vecs.push(json!(w.iter().map(|f| fr_big(f).to_string()).collect::<Vec<_>>())),
                Ok(Err(e)) => vecs.push(json!([format!("err: {e}")])),
                Err(m) => vecs.push(json!([format!("panic: {}", m.chars().take(60).collect::<String>())])),
            }
        }
        ev["code"] = json!(vecs);
        out.push(ev);
    }
}

/// the bundled graph evaluated on one assignment, in the event format of run_graphs (every node value, advice),
/// so that Trace_Graph can judge the evaluation of the REAL graph node by node
pub fn run_bundled(seed: u64, out: &mut Vec<Value>) {
    use rln::circuit::graph_from_folder;
    let mut r = ChaCha20Rng::seed_from_u64(seed);
    let p = modulus();
    let (nodes, outputs, info) = deserialize_witnesscalc_graph(std::io::Cursor::new(graph_from_folder())).unwrap();
    let nslots = info.values().map(|(o, l)| o + l).max().unwrap_or(1);
    let mut buf: Vec<BigUint> = vec![BigUint::from(0u8); nslots];
    buf[0] = BigUint::from(1u8);
    let mut named: Vec<(String, Vec<BigUint>)> = Vec::new();
    for (name, (off, len)) in info.iter() {
        let vs: Vec<BigUint> = (0..*len).map(|k| match name.as_str() {
            "userMessageLimit" => BigUint::from(65536u32),
            "messageId" => BigUint::from(65535u32),
            "identityPathIndex" => BigUint::from((k % 2) as u8),
            _ => { let mut b = [0u8; 32]; r.fill_bytes(&mut b); BigUint::from_bytes_le(&b) % &p }
        }).collect();
        for (k, v) in vs.iter().enumerate() {
            buf[off + k] = v.clone();
        }
        named.push((name.clone(), vs));
    }
    let ubuf: Vec<U256> = buf.iter().map(big_u256).collect();
    let jn: Vec<Value> = nodes.iter().map(|nd| match nd {
        Node::Input(i) => json!({"k": "in", "i": i}),
        Node::Constant(c) => json!({"k": "const", "v": le(&u256_big(c))}),
        Node::MontConstant(c) => json!({"k": "const", "v": le(&fr_big(c))}),
        Node::UnoOp(_, a) => json!({"k": "uno", "op": "Neg", "a": a}),
        Node::Op(op, a, b) => json!({"k": "op", "op": OPS.iter().find(|(_, o)| o == op).unwrap().0, "a": a, "b": b}),
        Node::TresOp(_, a, b, c) => json!({"k": "tres", "a": a, "b": b, "c": c}),
    }).collect();
    let all: Vec<usize> = (0..nodes.len()).collect();
    let vals = graph::evaluate(&nodes, &ubuf, &all);
    let vb: Vec<BigUint> = vals.iter().map(fr_big).collect();
    let qs: Vec<Vec<u8>> = nodes.iter().enumerate().map(|(i, nd)| match nd {
        Node::Op(op, a, b) => le(&advice(OPS.iter().find(|(_, o)| o == op).unwrap().0, &vb[*a], &vb[*b], &vb[i])),
        _ => vec![],
    }).collect();
    let o = graph::evaluate(&nodes, &ubuf, &outputs);
    let mut bytes = Vec::new();
    let ser = serialize_witnesscalc_graph(&mut bytes, &nodes, &outputs, &info).is_ok();
    let rt = deserialize_witnesscalc_graph(std::io::Cursor::new(&bytes)).map(|(n2, o2, i2)| json!({"nodes": n2 == nodes, "outputs": o2 == outputs, "inputs": i2 == info}))
        .unwrap_or(json!({"nodes": false, "outputs": false, "inputs": false}));
    let mut calc = Vec::new();
    for ord in 0..3 {
        match ord { 1 => named.reverse(), 2 => named.rotate_left(2), _ => {} }
        let it = named.iter().map(|(n, vs)| (n.clone(), vs.iter().map(big_fr).collect::<Vec<_>>()));
        match calc_witness(it, &bytes) {
            Ok(w) => calc.push(json!(w.iter().map(|v| le(&fr_big(v))).collect::<Vec<_>>())),
            Err(e) => calc.push(json!(format!("err: {e}"))),
        }
    }
    out.push(json!({"t": "graph", "g": "bundled", "res": "ok", "nodes": jn, "outputs": outputs, "inputs": buf.iter().map(le).collect::<Vec<_>>(),
                    "values": vb.iter().map(le).collect::<Vec<_>>(), "q": qs, "out": o.iter().map(|v| le(&fr_big(v))).collect::<Vec<_>>(),
                    "ser": ser, "roundtrip": rt, "calc": calc, "stored_bytes_equal": bytes == graph_from_folder()}));
}
