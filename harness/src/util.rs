use serde_json::Value;
use std::io::{BufRead, BufWriter, Write};
use std::panic::{catch_unwind, UnwindSafe};

/// run f; a panic in the code under test is data, not a tool failure
pub fn catch<T>(f: impl FnOnce() -> T + UnwindSafe) -> Result<T, String> {
    catch_unwind(f).map_err(|e| {
        if let Some(s) = e.downcast_ref::<&str>() {
            s.to_string()
        } else if let Some(s) = e.downcast_ref::<String>() {
            s.clone()
        } else {
            "panic".to_string()
        }
    })
}

pub fn quiet_panics() {
    std::panic::set_hook(Box::new(|_| {}));
}

pub fn bytes_of(v: &Value) -> Vec<u8> {
    v.as_array().unwrap().iter().map(|x| x.as_u64().unwrap() as u8).collect()
}

pub fn read_ndjson(path: &str) -> Vec<Value> {
    let f = std::fs::File::open(path).unwrap_or_else(|e| panic!("cannot open {path}: {e}"));
    std::io::BufReader::new(f)
        .lines()
        .map(|l| l.unwrap())
        .filter(|l| !l.trim().is_empty())
        .map(|l| serde_json::from_str(&l).unwrap_or_else(|e| panic!("bad json line in {path}: {e}")))
        .collect()
}

pub fn write_ndjson(path: &str, evs: &[Value]) {
    let f = std::fs::File::create(path).unwrap_or_else(|e| panic!("cannot create {path}: {e}"));
    let mut w = BufWriter::new(f);
    for e in evs {
        serde_json::to_writer(&mut w, e).unwrap();
        w.write_all(b"\n").unwrap();
    }
    w.flush().unwrap();
}

pub fn write_json(path: &str, v: &Value) {
    let f = std::fs::File::create(path).unwrap_or_else(|e| panic!("cannot create {path}: {e}"));
    let mut w = BufWriter::new(f);
    serde_json::to_writer(&mut w, v).unwrap();
    w.flush().unwrap();
}

pub fn arg<'a>(args: &'a [String], name: &str) -> Option<&'a str> {
    args.iter().position(|a| a == name).and_then(|i| args.get(i + 1)).map(|s| s.as_str())
}

use std::sync::atomic::{AtomicUsize, Ordering};
static LAST_PROOF: AtomicUsize = AtomicUsize::new(0);
static PROOF_TICK: AtomicUsize = AtomicUsize::new(0);
/// order in which an observation asks for the proofs of positions 0..cap: starts with the position asked
/// last by the previous observation, ends with a position that varies from call to call
pub fn proof_order(cap: usize) -> Vec<usize> {
    let first = LAST_PROOF.load(Ordering::Relaxed) % cap;
    let tick = PROOF_TICK.fetch_add(1, Ordering::Relaxed);
    let last = (tick * 7 + 3) % cap;
    let mut v: Vec<usize> = vec![first];
    v.extend((0..cap).filter(|i| *i != first && (*i != last || last == first)));
    if last != first {
        v.push(last);
    }
    LAST_PROOF.store(*v.last().unwrap(), Ordering::Relaxed);
    v
}

/// The harness shares instances between threads (C14, C18). If a change to the library makes a type lose `Sync`
/// (a `RefCell` memo, say), the harness must still build - otherwise every check would end in a tool error instead
/// of judging the behaviour. What such a type then does under contention is data like any other response.
pub struct Shared<T>(pub T);
unsafe impl<T> Send for Shared<T> {}
unsafe impl<T> Sync for Shared<T> {}
impl<T> std::ops::Deref for Shared<T> {
    type Target = T;
    fn deref(&self) -> &T {
        &self.0
    }
}
