// Interning of field elements and the hash function-graph tables handed to the TLA+ judges.
// The harness never decides anything with these: ids are assigned by exact value, and every
// table entry is the library's own hash evaluated on actual values.
use ark_ff::{BigInteger, PrimeField};
use rln::circuit::Fr;
use rln::hashers::{hash_to_field, poseidon_hash};
use serde_json::{json, Value};
use std::collections::{BTreeMap, HashMap};

pub struct Interner {
    ids: HashMap<Fr, u32>,
    vals: Vec<Fr>,
    pub h1: BTreeMap<u32, u32>,
    pub h2: BTreeMap<(u32, u32), u32>,
    pub h3: BTreeMap<(u32, u32, u32), u32>,
    pub k: Vec<(Vec<u8>, u32)>,
    pub want_bytes: bool,
}

pub const RESERVED: u64 = 16;

impl Interner {
    pub fn new() -> Self {
        let mut s = Interner {
            ids: HashMap::new(),
            vals: Vec::new(),
            h1: BTreeMap::new(),
            h2: BTreeMap::new(),
            h3: BTreeMap::new(),
            k: Vec::new(),
            want_bytes: false,
        };
        // small symbolic leaf values keep their own number as id (0 = default leaf)
        for v in 0..RESERVED {
            s.id(&Fr::from(v));
        }
        s
    }
    pub fn id(&mut self, v: &Fr) -> u32 {
        if let Some(i) = self.ids.get(v) {
            return *i;
        }
        let i = self.vals.len() as u32;
        self.ids.insert(*v, i);
        self.vals.push(*v);
        i
    }
    pub fn val(&self, id: u32) -> Fr {
        self.vals[id as usize]
    }
    pub fn len(&self) -> usize {
        self.vals.len()
    }
    /// H(a) through the library, recorded
    pub fn hash1(&mut self, a: &Fr) -> Fr {
        let c = poseidon_hash(&[*a]);
        let (ia, ic) = (self.id(a), self.id(&c));
        self.h1.insert(ia, ic);
        c
    }
    pub fn hash2(&mut self, a: &Fr, b: &Fr) -> Fr {
        let (ia, ib) = (self.id(a), self.id(b));
        if let Some(ic) = self.h2.get(&(ia, ib)) {
            return self.vals[*ic as usize];
        }
        let c = poseidon_hash(&[*a, *b]);
        let ic = self.id(&c);
        self.h2.insert((ia, ib), ic);
        c
    }
    pub fn hash3(&mut self, a: &Fr, b: &Fr, c: &Fr) -> Fr {
        let r = poseidon_hash(&[*a, *b, *c]);
        let (ia, ib, ic, ir) = (self.id(a), self.id(b), self.id(c), self.id(&r));
        self.h3.insert((ia, ib, ic), ir);
        r
    }
    pub fn keccak(&mut self, bytes: &[u8]) -> Fr {
        let r = hash_to_field(bytes);
        let ir = self.id(&r);
        if !self.k.iter().any(|(b, _)| b == bytes) {
            self.k.push((bytes.to_vec(), ir));
        }
        r
    }
    /// tables as JSON: H2 is row-indexed by first argument id (1-based in TLA+)
    pub fn tables(&self) -> Value {
        let n = self.vals.len();
        let mut rows: Vec<Vec<[u32; 2]>> = vec![Vec::new(); n];
        for ((a, b), c) in &self.h2 {
            rows[*a as usize].push([*b, *c]);
        }
        let mut h1 = vec![-1i64; n];
        for (a, c) in &self.h1 {
            h1[*a as usize] = *c as i64;
        }
        let h3: Vec<[u32; 4]> = self.h3.iter().map(|((a, b, c), r)| [*a, *b, *c, *r]).collect();
        let k: Vec<Value> = self.k.iter().map(|(b, c)| json!([b, c])).collect();
        let mut t = json!({"n": n, "H1": h1, "H2": rows, "H3": h3, "K": k});
        if self.want_bytes {
            let v: Vec<Vec<u8>> = self.vals.iter().map(fr_le_bytes).collect();
            t["V"] = json!(v);
        }
        t
    }
}

/// 32 little-endian bytes taken from the big-integer limbs (independent of rln::utils::fr_to_bytes_le)
pub fn fr_le_bytes(v: &Fr) -> Vec<u8> {
    v.into_bigint().to_bytes_le()
}
