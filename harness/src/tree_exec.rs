// Executor for tree scenarios on the trait-level backends (full, optimal, pm).
// It executes and records; it decides nothing.
use crate::intern::Interner;
use crate::util::*;
use rln::circuit::Fr;
use rln::hashers::PoseidonHash;
use serde_json::{json, Value};
use std::collections::{BTreeMap, BTreeSet};
use std::panic::AssertUnwindSafe;
use zerokit_utils::{
    FullMerkleBranch, FullMerkleProof, FullMerkleTree, OptimalMerkleProof, OptimalMerkleTree,
    ZerokitMerkleProof, ZerokitMerkleTree,
};

/// proofs that the harness can rebuild with one field altered (C07 tamper experiments)
pub trait ProofBuild: Sized {
    fn rebuild(sibs: &[Fr], bits: &[u8]) -> Option<Self>;
}
impl ProofBuild for FullMerkleProof<PoseidonHash> {
    fn rebuild(sibs: &[Fr], bits: &[u8]) -> Option<Self> {
        Some(FullMerkleProof(
            sibs.iter()
                .zip(bits)
                .map(|(s, b)| if *b == 0 { FullMerkleBranch::Left(*s) } else { FullMerkleBranch::Right(*s) })
                .collect(),
        ))
    }
}
impl ProofBuild for OptimalMerkleProof<PoseidonHash> {
    fn rebuild(sibs: &[Fr], bits: &[u8]) -> Option<Self> {
        Some(OptimalMerkleProof(sibs.iter().cloned().zip(bits.iter().cloned()).collect()))
    }
}
#[cfg(feature = "pmtree")]
impl ProofBuild for rln::pm_tree_adapter::PmTreeProof {
    fn rebuild(_: &[Fr], _: &[u8]) -> Option<Self> {
        None
    }
}

pub fn fold(it: &mut Interner, leaf: &Fr, sibs: &[Fr], bits: &[u8]) -> Fr {
    let mut acc = *leaf;
    for (s, b) in sibs.iter().zip(bits) {
        acc = if *b == 0 { it.hash2(&acc, s) } else { it.hash2(s, &acc) };
    }
    acc
}

fn verdict(r: color_eyre::Result<bool>) -> &'static str {
    match r {
        Ok(true) => "true",
        Ok(false) => "false",
        Err(_) => "err",
    }
}

/// Full observation of a small tree (depth <= 5): everything the API exposes.
pub fn observe_small<T>(tree: &T, d: usize, it: &mut Interner, tamper_pos: &[usize]) -> Value
where
    T: ZerokitMerkleTree<Hasher = PoseidonHash>,
    T::Proof: ZerokitMerkleProof<Hasher = PoseidonHash, Index = u8> + ProofBuild,
{
    let cap = 1usize << d;
    let mut o = json!({});
    o["next"] = json!(tree.leaves_set());
    o["cap"] = json!(tree.capacity());
    o["depth"] = json!(tree.depth());
    o["empties"] = json!(tree.get_empty_leaves_indices());
    let mut leaves = Vec::new();
    let mut leaf_vals = Vec::new();
    for i in 0..cap {
        match tree.get(i) {
            Ok(v) => {
                leaves.push(json!(it.id(&v)));
                leaf_vals.push(Some(v));
            }
            Err(_) => {
                leaves.push(json!(-1));
                leaf_vals.push(None);
            }
        }
    }
    o["leaves"] = json!(leaves);
    // out-of-range reads must be rejected
    o["get_oob"] = json!(if tree.get(cap).is_err() { "err" } else { "ok" });
    let mut nodes = Vec::new();
    for l in 0..=d {
        let mut row = Vec::new();
        for i in 0..(1usize << l) {
            match tree.get_subtree_root(l, i << (d - l)) {
                Ok(v) => row.push(json!(it.id(&v))),
                Err(_) => row.push(json!(-1)),
            }
        }
        nodes.push(row);
    }
    // hash facts for every observed sibling pair
    for l in 0..d {
        for i in 0..(1usize << l) {
            if let (Some(a), Some(b)) = (nodes[l + 1][2 * i].as_u64(), nodes[l + 1][2 * i + 1].as_u64()) {
                let (a, b) = (it.val(a as u32), it.val(b as u32));
                it.hash2(&a, &b);
            }
        }
    }
    o["nodes"] = json!(nodes);
    o["root"] = json!(it.id(&tree.root()));
    let mut proofs = Vec::new();
    // query order: begin with the position asked last in the previous observation and end with a varying
    // one, so that a one-entry memo inside the backend is exercised (same position asked twice in a row
    // with a mutation in between)
    let order = crate::util::proof_order(cap);
    for i in order {
        let mut p = json!({"i": i});
        match tree.proof(i) {
            Err(_) => {
                p["res"] = json!("err");
            }
            Ok(pr) => {
                p["res"] = json!("ok");
                let sibs = pr.get_path_elements();
                let bits = pr.get_path_index();
                p["sib"] = json!(sibs.iter().map(|s| it.id(s)).collect::<Vec<_>>());
                p["bits"] = json!(bits);
                p["idx"] = json!(pr.leaf_index());
                p["len"] = json!(pr.length());
                if let Some(leaf) = leaf_vals[i] {
                    p["cr"] = json!(it.id(&pr.compute_root_from(&leaf)));
                    fold(it, &leaf, &sibs, &bits);
                    p["ok"] = json!(verdict(tree.verify(&leaf, &pr)));
                    // another leaf value under the same proof
                    let other = leaf + Fr::from(1u64);
                    fold(it, &other, &sibs, &bits);
                    p["alt"] = json!({"leaf": it.id(&other), "v": verdict(tree.verify(&other, &pr))});
                    if tamper_pos.contains(&i) {
                        let mut ts = Vec::new();
                        for k in 0..sibs.len() {
                            // sibling altered at level k
                            let mut s2 = sibs.clone();
                            s2[k] = s2[k] + Fr::from(1u64);
                            if let Some(p2) = T::Proof::rebuild(&s2, &bits) {
                                fold(it, &leaf, &s2, &bits);
                                ts.push(json!({"k": k + 1, "what": "sib", "sib": it.id(&s2[k]),
                                               "v": verdict(tree.verify(&leaf, &p2))}));
                            }
                            // direction bit flipped at level k
                            let mut b2 = bits.clone();
                            b2[k] = 1 - b2[k].min(1);
                            if let Some(p2) = T::Proof::rebuild(&sibs, &b2) {
                                fold(it, &leaf, &sibs, &b2);
                                ts.push(json!({"k": k + 1, "what": "bit", "v": verdict(tree.verify(&leaf, &p2))}));
                            }
                        }
                        p["tamper"] = json!(ts);
                    }
                }
            }
        }
        proofs.push(p);
    }
    proofs.sort_by_key(|p| p["i"].as_u64().unwrap());
    o["proofs"] = json!(proofs);
    o["proof_oob"] = json!(if tree.proof(cap).is_err() { "err" } else { "ok" });
    o
}


/// positions whose proofs a sparse observation asks for: the lowest and the highest watched ones and two that
/// move with the state (so that high positions and a memo inside the backend are exercised)
pub fn proof_positions(touched: &BTreeSet<usize>, salt: usize) -> Vec<usize> {
    let v: Vec<usize> = touched.iter().cloned().collect();
    let mut pick: BTreeSet<usize> = BTreeSet::new();
    for &i in v.iter().take(3) {
        pick.insert(i);
    }
    for &i in v.iter().rev().take(3) {
        pick.insert(i);
    }
    if !v.is_empty() {
        pick.insert(v[(salt * 7 + 3) % v.len()]);
        pick.insert(v[(salt * 13 + 5) % v.len()]);
    }
    pick.into_iter().collect()
}

pub fn touched_by(op: &Value, next_before: usize, out: &mut BTreeSet<usize>, cap: usize) {
    let mut add = |i: usize| {
        if i < cap {
            out.insert(i);
        }
    };
    match op["c"].as_str().unwrap() {
        "set" | "delete" => add(op["i"].as_u64().unwrap() as usize),
        "append" => add(next_before),
        "range" | "override" | "init" => {
            let s = op.get("s").and_then(|x| x.as_u64()).unwrap_or(0) as usize;
            let n = op["vs"].as_array().unwrap().len();
            for k in 0..n {
                add(s + k);
            }
            if let Some(rem) = op.get("rem").and_then(|x| x.as_array()) {
                for x in rem {
                    add(x.as_u64().unwrap() as usize);
                }
                // the known deviant batch (persistent backend) writes start-min(rem)+n values at start:
                // watch that whole span (bounded) so that the observation stays complete
                let min = rem.iter().map(|x| x.as_u64().unwrap() as usize).min().unwrap_or(s);
                let span = if s > min { s - min + n } else { n } + 8;
                for k in 0..span.min(4096) {
                    add(s + k);
                }
            }
        }
        _ => {}
    }
}


/// Sparse observation of a large tree through the trait API: watched positions, root, mark, proofs of a few
/// watched positions with everything the proof type exposes. Same shape as the RLN-level sparse observation.
pub fn observe_sparse<T>(tree: &T, d: usize, touched: &BTreeSet<usize>, it: &mut Interner) -> Value
where
    T: ZerokitMerkleTree<Hasher = PoseidonHash>,
    T::Proof: ZerokitMerkleProof<Hasher = PoseidonHash, Index = u8> + ProofBuild,
{
    let mut o = json!({"sparse": true, "depth": tree.depth(), "cap": tree.capacity()});
    let next = tree.leaves_set();
    o["next"] = json!(next);
    if next <= 4096 {
        o["empties"] = json!(tree.get_empty_leaves_indices());
    }
    let mut tl = Vec::new();
    let mut vals = BTreeMap::new();
    for &i in touched {
        match tree.get(i) {
            Ok(v) => {
                tl.push(json!([i, it.id(&v)]));
                vals.insert(i, v);
            }
            Err(_) => tl.push(json!([i, -1])),
        }
    }
    o["touched"] = json!(tl);
    o["tp"] = json!(touched.iter().cloned().collect::<Vec<usize>>());
    o["nz"] = json!(vals.iter().filter(|(_, v)| **v != Fr::from(0u64)).map(|(k, v)| json!([k, it.id(v)])).collect::<Vec<_>>());
    o["unread"] = json!(touched.iter().filter(|i| !vals.contains_key(i)).count());
    o["root"] = json!(it.id(&tree.root()));
    o["get_oob"] = json!(if tree.get(1usize << d).is_err() { "err" } else { "ok" });
    let mut zs = vec![Fr::from(0u64); d + 1];
    for l in (0..d).rev() {
        zs[l] = it.hash2(&zs[l + 1].clone(), &zs[l + 1].clone());
    }
    o["zs"] = json!(zs.iter().map(|z| it.id(z)).collect::<Vec<_>>());
    let mut level: BTreeMap<usize, Fr> = vals.iter().filter(|(_, v)| **v != Fr::from(0u64)).map(|(k, v)| (*k, *v)).collect();
    for l in (0..d).rev() {
        let mut up = BTreeMap::new();
        let keys: Vec<usize> = level.keys().cloned().collect();
        for k in keys {
            let p = k >> 1;
            if up.contains_key(&p) {
                continue;
            }
            let a = level.get(&(p << 1)).cloned().unwrap_or(zs[l + 1]);
            let b = level.get(&((p << 1) + 1)).cloned().unwrap_or(zs[l + 1]);
            up.insert(p, it.hash2(&a, &b));
        }
        level = up;
    }
    let mut proofs = Vec::new();
    for i in proof_positions(touched, next) {
        let mut p = json!({"i": i});
        match tree.proof(i) {
            Err(_) => p["res"] = json!("err"),
            Ok(pr) => {
                p["res"] = json!("ok");
                let sibs = pr.get_path_elements();
                let bits = pr.get_path_index();
                p["sib"] = json!(sibs.iter().map(|s| it.id(s)).collect::<Vec<_>>());
                p["bits"] = json!(bits);
                p["idx"] = json!(pr.leaf_index());
                p["len"] = json!(pr.length());
                if let Some(leaf) = vals.get(&i) {
                    p["cr"] = json!(it.id(&pr.compute_root_from(leaf)));
                    fold(it, leaf, &sibs, &bits);
                    p["ok"] = json!(verdict(tree.verify(leaf, &pr)));
                    let other = *leaf + Fr::from(1u64);
                    fold(it, &other, &sibs, &bits);
                    p["alt"] = json!({"leaf": it.id(&other), "v": verdict(tree.verify(&other, &pr))});
                }
            }
        }
        proofs.push(p);
    }
    o["proofs"] = json!(proofs);
    o["proof_oob"] = json!(if tree.proof(1usize << d).is_err() { "err" } else { "ok" });
    o
}

pub fn fr_of(v: &Value) -> Fr {
    Fr::from(v.as_u64().unwrap())
}
pub fn frs_of(v: &Value) -> Vec<Fr> {
    v.as_array().unwrap().iter().map(fr_of).collect()
}
pub fn usizes_of(v: &Value) -> Vec<usize> {
    v.as_array().unwrap().iter().map(|x| x.as_u64().unwrap() as usize).collect()
}

/// apply one scenario operation through the trait API; "init" mirrors RLN::init_tree_with_leaves
pub fn apply<T>(tree: &mut T, op: &Value, mk: &dyn Fn(usize) -> T, d: usize) -> color_eyre::Result<()>
where
    T: ZerokitMerkleTree<Hasher = PoseidonHash>,
{
    match op["c"].as_str().unwrap() {
        "set" => tree.set(op["i"].as_u64().unwrap() as usize, fr_of(&op["v"])),
        "delete" => tree.delete(op["i"].as_u64().unwrap() as usize),
        "append" => tree.update_next(fr_of(&op["v"])),
        "range" => tree.set_range(op["s"].as_u64().unwrap() as usize, frs_of(&op["vs"]).into_iter()),
        "override" => tree.override_range(
            op["s"].as_u64().unwrap() as usize,
            frs_of(&op["vs"]).into_iter(),
            usizes_of(&op["rem"]).into_iter(),
        ),
        "init" => {
            *tree = mk(d);
            tree.override_range(0, frs_of(&op["vs"]).into_iter(), Vec::<usize>::new().into_iter())
        }
        "set_meta" => tree.set_metadata(&bytes_of(&op["m"])),
        "compute_root" => tree.compute_root().map(|_| ()),
        c => panic!("unknown scenario op {c}"),
    }
}

pub fn run_target<T>(
    target: &str,
    mk: &dyn Fn(usize) -> T,
    scenario: &[Value],
    it: &mut Interner,
    out: &mut Vec<Value>,
    tamper_every: usize,
) where
    T: ZerokitMerkleTree<Hasher = PoseidonHash>,
    T::Proof: ZerokitMerkleProof<Hasher = PoseidonHash, Index = u8> + ProofBuild,
{
    // "pm-ls" etc. are the persistent backend under another storage configuration: same backend for the judge
    let (target, be) = (target, target.split('-').next().unwrap_or(target));
    let mut tree: Option<T> = None;
    let mut d = 0usize;
    let mut n = 0usize;
    let mut touched: BTreeSet<usize> = BTreeSet::new();
    for (k, op) in scenario.iter().enumerate() {
        if op["c"] == "reset" {
            d = op["d"].as_u64().unwrap() as usize;
            drop(tree.take());
            touched.clear();
            if d > 5 {
                for p in op.get("probe").and_then(|x| x.as_array()).cloned().unwrap_or_default() {
                    if (p.as_u64().unwrap() as usize) < (1usize << d) {
                        touched.insert(p.as_u64().unwrap() as usize);
                    }
                }
            }
            let r = catch(AssertUnwindSafe(|| mk(d)));
            let mut ev = json!({"t": "reset", "k": k, "tgt": target, "be": be, "d": d});
            match r {
                Ok(t) => {
                    let obs = catch(AssertUnwindSafe(|| if d <= 5 { observe_small(&t, d, it, &[]) } else { observe_sparse(&t, d, &touched, it) }));
                    ev["obs"] = obs.unwrap_or_else(|m| json!({"broken": m}));
                    ev["res"] = json!("ok");
                    tree = Some(t);
                }
                Err(m) => {
                    ev["res"] = json!("panic");
                    ev["msg"] = json!(m);
                    tree = None;
                }
            }
            out.push(ev);
            continue;
        }
        let Some(t) = tree.as_mut() else { continue };
        n += 1;
        if d > 5 {
            touched_by(op, t.leaves_set(), &mut touched, 1usize << d);
        }
        let r = catch(AssertUnwindSafe(|| apply(t, op, mk, d)));
        let mut ev = json!({"t": "op", "k": k, "tgt": target, "be": be, "d": d, "op": op});
        match r {
            Ok(Ok(())) => ev["res"] = json!("ok"),
            Ok(Err(e)) => {
                ev["res"] = json!("err");
                ev["msg"] = json!(e.to_string());
            }
            Err(m) => {
                ev["res"] = json!("panic");
                ev["msg"] = json!(m);
            }
        }
        let cap = 1usize << d;
        let tp: Vec<usize> = if tamper_every > 0 && n % tamper_every == 0 {
            if cap <= 4 { (0..cap).collect() } else { vec![(n / tamper_every) % cap, (n * 7 + 3) % cap] }
        } else {
            vec![]
        };
        let obs = catch(AssertUnwindSafe(|| if d <= 5 { observe_small(&*t, d, it, &tp) } else { observe_sparse(&*t, d, &touched, it) }));
        ev["obs"] = obs.unwrap_or_else(|m| json!({"broken": m}));
        out.push(ev);
    }
}

pub fn mk_full(d: usize) -> FullMerkleTree<PoseidonHash> {
    <FullMerkleTree<PoseidonHash> as ZerokitMerkleTree>::default(d).unwrap()
}
pub fn mk_optimal(d: usize) -> OptimalMerkleTree<PoseidonHash> {
    <OptimalMerkleTree<PoseidonHash> as ZerokitMerkleTree>::default(d).unwrap()
}
#[cfg(feature = "pmtree")]
pub fn mk_pm(d: usize) -> rln::pm_tree_adapter::PmTree {
    <rln::pm_tree_adapter::PmTree as ZerokitMerkleTree>::default(d).unwrap()
}

/// the persistent backend under a non-default storage configuration (LowSpace mode, small cache, frequent flushes)
#[cfg(feature = "pmtree")]
pub fn mk_pm_lowspace(d: usize) -> rln::pm_tree_adapter::PmTree {
    use std::str::FromStr;
    let cfg = rln::pm_tree_adapter::PmtreeConfig::from_str(r#"{"mode":"LowSpace","cache_capacity":100000,"flush_every_ms":50}"#).unwrap();
    <rln::pm_tree_adapter::PmTree as ZerokitMerkleTree>::new(d, <PoseidonHash as zerokit_utils::Hasher>::default_leaf(), cfg).unwrap()
}

/// in-memory backends created with an initial leaf that is NOT the hasher's default leaf (deletions write the default
/// leaf): only the checks that judge a tree against its OWN observed values (C07) use these
pub fn mk_full_il(d: usize) -> FullMerkleTree<PoseidonHash> {
    <FullMerkleTree<PoseidonHash> as ZerokitMerkleTree>::new(d, Fr::from(7u64), Default::default()).unwrap()
}
pub fn mk_optimal_il(d: usize) -> OptimalMerkleTree<PoseidonHash> {
    <OptimalMerkleTree<PoseidonHash> as ZerokitMerkleTree>::new(d, Fr::from(7u64), Default::default()).unwrap()
}
