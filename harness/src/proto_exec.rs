// Executor for protocol scenarios (C01 C02 C03 C04 C12 C13): registration, proving through the four
// entry points, verification of (modified) messages, secret recovery. Executes and records.
#![cfg(not(feature = "stateless"))]
use crate::intern::{fr_le_bytes, Interner};
use crate::rln_exec::{dec_fr, dec_proof, enc_fr, enc_vec_fr, enc_vec_u8, new_rln};
use crate::util::*;
use ark_ff::{BigInteger, PrimeField};
use num_bigint::{BigInt, BigUint};
use rand::{Rng, RngCore, SeedableRng};
use rand_chacha::ChaCha20Rng;
use rln::circuit::{calculate_rln_witness, graph_from_folder, zkey_from_folder, Fr};
use rln::protocol::{
    deserialize_witness, generate_proof_with_witness, inputs_for_witness_calculation, proof_values_from_witness,
    serialize_proof_values,
};
use rln::public::RLN;
use serde_json::{json, Value};
use std::collections::HashMap;
use std::io::Cursor;
use std::panic::AssertUnwindSafe;

pub fn modulus() -> BigUint {
    BigUint::from_bytes_le(&<Fr as PrimeField>::MODULUS.to_bytes_le())
}
pub fn fr_big(v: &Fr) -> BigUint {
    BigUint::from_bytes_le(&fr_le_bytes(v))
}
pub fn big_fr(b: &BigUint) -> Fr {
    Fr::from(b.clone())
}

/// field value descriptor -> value (as an unreduced natural number; most are < p)
pub fn fv_big(v: &Value) -> BigUint {
    let p = modulus();
    match v["k"].as_str().unwrap() {
        "int" => BigUint::from(v["v"].as_u64().unwrap()),
        "pm" => &p - BigUint::from(v["v"].as_u64().unwrap()),
        "pow2" => {
            let b = BigUint::from(1u8) << (v["e"].as_u64().unwrap() as usize);
            match v["d"].as_i64().unwrap_or(0) {
                -1 => b - 1u8,
                1 => b + 1u8,
                _ => b,
            }
        }
        "half" => {
            let h = (&p - 1u8) >> 1;
            match v["d"].as_i64().unwrap_or(0) {
                -1 => h - 1u8,
                1 => h + 1u8,
                2 => h + 2u8,
                _ => h,
            }
        }
        "rnd" => {
            let mut r = ChaCha20Rng::seed_from_u64(v["s"].as_u64().unwrap());
            let mut b = [0u8; 32];
            r.fill_bytes(&mut b);
            BigUint::from_bytes_le(&b) % &p
        }
        "add" => fv_big(&v["x"]) + fv_big(&v["y"]),
        k => panic!("unknown field descriptor {k}"),
    }
}
pub fn fv(v: &Value) -> Fr {
    big_fr(&(fv_big(v) % modulus()))
}

pub fn signal_of(v: &Value) -> Vec<u8> {
    if let Some(a) = v.as_array() {
        return a.iter().map(|x| x.as_u64().unwrap() as u8).collect();
    }
    let n = v["len"].as_u64().unwrap() as usize;
    let mut r = ChaCha20Rng::seed_from_u64(v["seed"].as_u64().unwrap_or(0));
    let mut b = vec![0u8; n];
    r.fill_bytes(&mut b);
    b
}

fn le32(b: &BigUint) -> Vec<u8> {
    let mut v = b.to_bytes_le();
    v.resize(32, 0);
    v.truncate(32);
    v
}

pub struct Msg {
    pub bytes: Vec<u8>, // proof (128) ++ values (160)
    pub signal: Vec<u8>,
    pub root_at_proof: Fr,
}

pub struct Ctx {
    pub rln: Option<RLN>,
    pub msgs: HashMap<String, Msg>,
    /// configuration of the current instance (a persistent location when the history asks for a restart)
    pub cfg: Value,
}

/// The byte-level API takes any reader: every call of this executor delivers its input either at once (a cursor)
/// or a few bytes per read call (1, 7 or 64), in rotation - the bytes are the same.
static RD_COUNTER: std::sync::atomic::AtomicUsize = std::sync::atomic::AtomicUsize::new(0);
pub fn rd(bytes: Vec<u8>) -> Box<dyn std::io::Read> {
    let k = RD_COUNTER.fetch_add(1, std::sync::atomic::Ordering::Relaxed);
    match k % 4 {
        0 | 2 => Box::new(Cursor::new(bytes)),
        1 if k % 8 == 5 => Box::new(crate::misc_exec::Interrupting { inner: crate::misc_exec::Chunked { data: bytes, pos: 0, chunk: 100 }, calls: 0 }),
        1 => Box::new(crate::misc_exec::Chunked { data: bytes, pos: 0, chunk: 7 }),
        _ => Box::new(crate::misc_exec::Chunked { data: bytes, pos: 0, chunk: if k % 8 == 3 { 1 } else { 64 } }),
    }
}

fn get_root(r: &RLN) -> Option<Fr> {
    let mut o = Vec::new();
    r.get_root(&mut o).ok()?;
    dec_fr(&o)
}
fn get_leaf(r: &RLN, i: usize) -> Option<Fr> {
    let mut o = Vec::new();
    r.get_leaf(i, &mut o).ok()?;
    dec_fr(&o)
}

fn rc_of(it: &mut Interner, s: &Fr, lim: &Fr) -> Fr {
    let idc = it.hash1(s);
    it.hash2(&idc, lim)
}

/// records the hash facts and the arithmetic advice the judge needs to evaluate Out(w)
fn out_facts(it: &mut Interner, s: &Fr, lim: &Fr, mid: &Fr, e: &Fr, x: &Fr, path: &[Fr], bits: &[u8]) -> Value {
    let rc = rc_of(it, s, lim);
    let a1 = it.hash3(s, e, mid);
    let nul = it.hash1(&a1);
    let root = crate::tree_exec::fold(it, &rc, path, bits);
    // y = s + x*a1 (mod p): advice q with s + x*a1 = q*p + y
    let p = modulus();
    let t = fr_big(s) + fr_big(x) * fr_big(&a1);
    let q = &t / &p;
    let y = big_fr(&(&t % &p));
    json!({"rc": it.id(&rc), "a1": it.id(&a1), "nul": it.id(&nul), "root": it.id(&root), "y": it.id(&y),
           "q": q.to_bytes_le()})
}

fn witness_bytes(s: &Fr, lim: &Fr, mid: &Fr, path: &[Fr], bits: &[u8], x: &Fr, e: &Fr) -> Vec<u8> {
    let mut b = enc_fr(s);
    b.extend(enc_fr(lim));
    b.extend(enc_fr(mid));
    b.extend(enc_vec_fr(path));
    b.extend(enc_vec_u8(bits));
    b.extend(enc_fr(x));
    b.extend(enc_fr(e));
    b
}

fn prove_req_bytes(s: &Fr, idx: u64, lim: &Fr, mid: &Fr, e: &Fr, sig: &[u8], siglen: Option<u64>) -> Vec<u8> {
    let mut b = enc_fr(s);
    b.extend(idx.to_le_bytes());
    b.extend(enc_fr(lim));
    b.extend(enc_fr(mid));
    b.extend(enc_fr(e));
    b.extend(siglen.unwrap_or(sig.len() as u64).to_le_bytes());
    b.extend_from_slice(sig);
    b
}

fn decode_values(it: &mut Interner, b: &[u8]) -> Value {
    // root, external nullifier, x, y, nullifier at fixed offsets (harness's own decoder, canonical only)
    let names = ["root", "e", "x", "y", "nul"];
    let mut o = json!({});
    for (k, n) in names.iter().enumerate() {
        let f = &b[128 + 32 * k..160 + 32 * k];
        o[*n] = match dec_fr(f) {
            Some(v) => json!(it.id(&v)),
            None => json!(-1),
        };
    }
    o
}

pub fn prove(cx: &mut Ctx, op: &Value, it: &mut Interner) -> Value {
    let entry = op["entry"].as_str().unwrap();
    let s = fv(&op["s"]);
    let lim = fv(&op["lim"]);
    let mid = fv(&op["mid"]);
    let e = fv(&op["e"]);
    let sig = signal_of(&op["sig"]);
    let idx = op["idx"].as_u64().unwrap();
    let x = it.keccak(&sig);
    let mu = op.get("mut").cloned().unwrap_or(json!({}));
    let mut ev = json!({"t": "prove", "entry": entry, "name": op["name"], "idx": idx,
                        "s": it.id(&s), "lim": it.id(&lim), "mid": it.id(&mid), "e": it.id(&e), "x": it.id(&x),
                        "limv": small(&op["lim"]), "midv": small(&op["mid"]), "siglen": sig.len(), "mut": mu});
    let Some(r) = cx.rln.as_mut() else {
        ev["res"] = json!("noinstance");
        return ev;
    };
    // context: what the tree holds at idx
    let cap = 1u64 << 20;
    let (mut path, mut bits): (Vec<Fr>, Vec<u8>) = (vec![], vec![]);
    if idx < cap {
        if let Some(l) = get_leaf(r, idx as usize) {
            ev["leaf"] = json!(it.id(&l));
        }
        let mut pb = Vec::new();
        if r.get_proof(idx as usize, &mut pb).is_ok() {
            if let Some((sibs, b)) = dec_proof(&pb) {
                path = sibs;
                bits = b;
            }
        }
    }
    let root_now = get_root(r);
    if let Some(rt) = root_now {
        ev["treeroot"] = json!(it.id(&rt));
    }
    // malformed-witness mutations (C12)
    if let Some(n) = mu.get("pathlen").and_then(|x| x.as_u64()) {
        path.resize(n as usize, Fr::from(7u64));
        if mu.get("bitslen").is_none() {
            bits.resize(n as usize, 0);
        }
    }
    if let Some(n) = mu.get("bitslen").and_then(|x| x.as_u64()) {
        bits.resize(n as usize, 0);
    }
    if let Some(b) = mu.get("bit").and_then(|x| x.as_array()) {
        let k = b[0].as_u64().unwrap() as usize;
        if k < bits.len() {
            bits[k] = b[1].as_u64().unwrap() as u8;
        }
    }
    if let Some(pv) = mu.get("path") {
        // caller-supplied arbitrary path (C04): elements and bits from a seed
        let mut rg = ChaCha20Rng::seed_from_u64(pv["seed"].as_u64().unwrap());
        path = (0..20).map(|_| { let mut b = [0u8; 32]; rg.fill_bytes(&mut b); big_fr(&(BigUint::from_bytes_le(&b) % modulus())) }).collect();
        bits = match pv["bits"].as_str().unwrap_or("rnd") {
            "zero" => vec![0; 20],
            "one" => vec![1; 20],
            "alt" => (0..20).map(|k| (k % 2) as u8).collect(),
            _ => (0..20).map(|_| rg.gen_range(0..2) as u8).collect(),
        };
        if let Some(k) = pv.get("single").and_then(|x| x.as_u64()) {
            bits = vec![0; 20];
            bits[k as usize] = 1;
        }
        // boundary values among the path elements (a sibling may be any field element: 0, 1, p-1)
        if let Some(a) = pv.get("all").and_then(|x| x.as_str()) {
            let v = match a { "zero" => Fr::from(0u64), "one" => Fr::from(1u64), _ => Fr::from(0u64) - Fr::from(1u64) };
            path = vec![v; 20];
        }
        if let Some(zs) = pv.get("zero_at").and_then(|x| x.as_array()) {
            for z in zs {
                path[z.as_u64().unwrap() as usize] = Fr::from(0u64);
            }
        }
    }
    ev["path"] = json!(path.iter().map(|v| it.id(v)).collect::<Vec<_>>());
    ev["bits"] = json!(bits);
    if path.len() == bits.len() {
        ev["out"] = out_facts(it, &s, &lim, &mid, &e, &x, &path, &bits);
    }
    let wbytes = {
        let mut w = witness_bytes(&s, &lim, &mid, &path, &bits, &x, &e);
        if let Some(n) = mu.get("wtrunc").and_then(|x| x.as_u64()) {
            let l = w.len().saturating_sub(n as usize);
            w.truncate(l);
        }
        if let Some(n) = mu.get("wappend").and_then(|x| x.as_u64()) {
            w.extend(std::iter::repeat(0u8).take(n as usize));
        }
        // the length prefix of the direction vector announces another number of bytes than follow
        if let Some(v) = mu.get("widxlen") {
            let off = 96 + 8 + 32 * path.len();
            if w.len() >= off + 8 {
                let cur = bits.len() as u64;
                let newv = match v.as_str().unwrap_or("") {
                    "+100" => cur + 100,
                    "-1" => cur.saturating_sub(1),
                    "+1" => cur + 1,
                    "max" => u64::MAX,
                    "max-7" => u64::MAX - 7,
                    "2^32" => 1u64 << 32,
                    _ => cur,
                };
                w[off..off + 8].copy_from_slice(&newv.to_le_bytes());
            }
        }
        w
    };
    let mut out: Vec<u8> = Vec::new();
    let res: Result<color_eyre::Result<()>, String> = match entry {
        "tree" => {
            let mut req = prove_req_bytes(&s, idx, &lim, &mid, &e, &sig, mu.get("siglen").and_then(|x| x.as_u64()));
            if let Some(n) = mu.get("reqlen").and_then(|x| x.as_u64()) {
                req.truncate(n as usize);
            }
            ev["reqlen"] = json!(req.len());
            catch(AssertUnwindSafe(|| r.generate_rln_proof(rd(req), &mut out)))
        }
        "witness" => catch(AssertUnwindSafe(|| r.generate_rln_proof_with_witness(rd(wbytes.clone()), &mut out))),
        "raw" => catch(AssertUnwindSafe(|| {
            let mut proof = Vec::new();
            r.prove(rd(wbytes.clone()), &mut proof)?;
            let (w, _) = deserialize_witness(&wbytes)?;
            let pv = proof_values_from_witness(&w)?;
            out.extend(proof);
            out.extend(serialize_proof_values(&pv));
            Ok(())
        })),
        "vector" => catch(AssertUnwindSafe(|| {
            // the witness vector is computed outside the prover and handed over as big integers
            let (w, _) = deserialize_witness(&wbytes)?;
            let inputs = inputs_for_witness_calculation(&w)?.into_iter().map(|(n, v)| (n.to_string(), v));
            let full = calculate_rln_witness(inputs, graph_from_folder())?;
            let big: Vec<BigInt> = full.iter().map(|f| BigInt::from(fr_big(f))).collect();
            let proof = generate_proof_with_witness(big, zkey_from_folder()).map_err(|e| color_eyre::Report::msg(e.to_string()))?;
            let pv = proof_values_from_witness(&w)?;
            use ark_serialize::CanonicalSerialize;
            proof.serialize_compressed(&mut out).map_err(|e| color_eyre::Report::msg(e.to_string()))?;
            out.extend(serialize_proof_values(&pv));
            Ok(())
        })),
        "values" => catch(AssertUnwindSafe(|| {
            // no proof: only the published values (C04 at volume)
            let (w, _) = deserialize_witness(&wbytes)?;
            let pv = proof_values_from_witness(&w)?;
            out.extend(std::iter::repeat(0u8).take(128));
            out.extend(serialize_proof_values(&pv));
            Ok(())
        })),
        e => panic!("unknown entry {e}"),
    };
    match res {
        Ok(Ok(())) => {
            ev["res"] = json!("ok");
            ev["outlen"] = json!(out.len());
            if out.len() == 288 {
                ev["msg"] = json!(out);
                ev["fields"] = decode_values(it, &out);
                if let Some(n) = op["name"].as_str() {
                    cx.msgs.insert(n.to_string(), Msg { bytes: out.clone(), signal: sig.clone(), root_at_proof: root_now.unwrap_or(Fr::from(0u64)) });
                }
            }
        }
        Ok(Err(e)) => {
            ev["res"] = json!("err");
            ev["msg_err"] = json!(e.to_string().chars().take(120).collect::<String>());
        }
        Err(m) => {
            ev["res"] = json!("panic");
            ev["msg_err"] = json!(m.chars().take(120).collect::<String>());
        }
    }
    // C04: the native values and the circuit's own outputs for the same witness (independent code paths)
    if op.get("c04").and_then(|x| x.as_bool()).unwrap_or(false) && path.len() == 20 && bits.len() == 20 {
        let w2 = witness_bytes(&s, &lim, &mid, &path, &bits, &x, &e);
        let r2 = catch(AssertUnwindSafe(|| -> color_eyre::Result<(Vec<Fr>, Vec<Fr>)> {
            let (w, _) = deserialize_witness(&w2)?;
            let pv = proof_values_from_witness(&w)?;
            let inputs = inputs_for_witness_calculation(&w)?.into_iter().map(|(n, v)| (n.to_string(), v));
            let full = calculate_rln_witness(inputs, graph_from_folder())?;
            Ok((vec![pv.y, pv.root, pv.nullifier, pv.x, pv.external_nullifier], full[1..6].to_vec()))
        }));
        match r2 {
            Ok(Ok((pv, wo))) => {
                ev["pv"] = json!(pv.iter().map(|v| it.id(v)).collect::<Vec<_>>());
                ev["wo"] = json!(wo.iter().map(|v| it.id(v)).collect::<Vec<_>>());
            }
            Ok(Err(e)) => ev["pv_err"] = json!(e.to_string()),
            Err(m) => ev["pv_err"] = json!(format!("panic: {m}")),
        }
    }
    ev
}

fn small(v: &Value) -> Value {
    // the integer value of a descriptor when it is small (used by the judge's range classification), else -1
    match v["k"].as_str().unwrap() {
        "int" => json!(v["v"].as_u64().unwrap().min(1 << 30)),
        "add" => json!(-1),
        "pow2" if v["e"].as_u64().unwrap() <= 29 => {
            json!(((1i64 << v["e"].as_u64().unwrap()) + v["d"].as_i64().unwrap_or(0)))
        }
        _ => json!(-1),
    }
}

/// apply the scenario's modifications to message bytes (proof|values|[siglen|signal])
pub fn apply_mods(mut b: Vec<u8>, mods: &[Value]) -> Vec<u8> {
    let p = modulus();
    for m in mods {
        match m["m"].as_str().unwrap() {
            "field" => {
                let f = m["f"].as_u64().unwrap() as usize;
                let off = 128 + 32 * f;
                if b.len() < off + 32 {
                    continue;
                }
                let cur = BigUint::from_bytes_le(&b[off..off + 32]);
                let new = match m["how"].as_str().unwrap() {
                    "inc" => (cur + 1u8) % &p,
                    "addp" => cur + &p,
                    "add2p" => cur + &p + &p,
                    "max" => (BigUint::from(1u8) << 256) - 1u8,
                    "zero" => BigUint::from(0u8),
                    "swap" => {
                        let g = (f + 1) % 5;
                        let o2 = 128 + 32 * g;
                        let other = b[o2..o2 + 32].to_vec();
                        let mine = b[off..off + 32].to_vec();
                        b[o2..o2 + 32].copy_from_slice(&mine);
                        BigUint::from_bytes_le(&other)
                    }
                    h => panic!("unknown how {h}"),
                };
                if new.bits() <= 256 {
                    b[off..off + 32].copy_from_slice(&le32(&new));
                }
            }
            "proofbit" => {
                let k = m["bit"].as_u64().unwrap() as usize;
                if k / 8 < b.len() {
                    b[k / 8] ^= 1 << (k % 8);
                }
            }
            "sigflip" => {
                let at = 296 + m["at"].as_u64().unwrap() as usize;
                if at < b.len() {
                    b[at] ^= 0x01;
                }
            }
            "sigtrunc" => {
                let n = m["n"].as_u64().unwrap() as usize;
                let l = b.len().saturating_sub(n).max(296.min(b.len()));
                b.truncate(l);
                if m.get("fixlen").and_then(|x| x.as_bool()).unwrap_or(false) && b.len() >= 296 {
                    let sl = (b.len() - 296) as u64;
                    b[288..296].copy_from_slice(&sl.to_le_bytes());
                }
            }
            "sigext" => {
                let n = m["n"].as_u64().unwrap() as usize;
                b.extend(std::iter::repeat(0x5au8).take(n));
                if m.get("fixlen").and_then(|x| x.as_bool()).unwrap_or(false) && b.len() >= 296 {
                    let sl = (b.len() - 296) as u64;
                    b[288..296].copy_from_slice(&sl.to_le_bytes());
                }
            }
            "siglen" => {
                if b.len() >= 296 {
                    let cur = u64::from_le_bytes(b[288..296].try_into().unwrap());
                    let new: u64 = match m["v"].as_str().unwrap() {
                        "+1" => cur.wrapping_add(1),
                        "-1" => cur.wrapping_sub(1),
                        "0" => 0,
                        "+2^32" => cur.wrapping_add(1 << 32),
                        "+2^40" => cur.wrapping_add(1 << 40),
                        "+2^63" => cur.wrapping_add(1 << 63),
                        "2^31" => 1 << 31,
                        "2^32" => 1 << 32,
                        "2^63" => 1 << 63,
                        "max" => u64::MAX,
                        "max-295" => u64::MAX - 295,
                        v => v.parse().unwrap(),
                    };
                    b[288..296].copy_from_slice(&new.to_le_bytes());
                }
            }
            "trunc" => b.truncate(m["len"].as_u64().unwrap() as usize),
            "append" => b.extend(std::iter::repeat(0u8).take(m["n"].as_u64().unwrap() as usize)),
            "randregion" => {
                let (a, z) = (m["from"].as_u64().unwrap() as usize, m["to"].as_u64().unwrap() as usize);
                let mut r = ChaCha20Rng::seed_from_u64(m["seed"].as_u64().unwrap_or(1));
                for k in a..z.min(b.len()) {
                    b[k] = r.gen();
                }
            }
            "empty" => b.clear(),
            x => panic!("unknown mod {x}"),
        }
    }
    b
}

fn full_message(m: &Msg, with_signal: bool) -> Vec<u8> {
    let mut b = m.bytes.clone();
    if with_signal {
        b.extend((m.signal.len() as u64).to_le_bytes());
        b.extend_from_slice(&m.signal);
    }
    b
}

fn verdict(r: Result<color_eyre::Result<bool>, String>, ev: &mut Value) {
    match r {
        Ok(Ok(true)) => ev["res"] = json!("true"),
        Ok(Ok(false)) => ev["res"] = json!("false"),
        Ok(Err(e)) => {
            ev["res"] = json!("err");
            ev["msg_err"] = json!(e.to_string().chars().take(100).collect::<String>());
        }
        Err(m) => {
            ev["res"] = json!("panic");
            ev["msg_err"] = json!(m.chars().take(100).collect::<String>());
        }
    }
}

/// the signal carried by (possibly malformed) message bytes, when the length field is consistent
fn carried_signal(b: &[u8]) -> Option<&[u8]> {
    if b.len() < 296 {
        return None;
    }
    let n = u64::from_le_bytes(b[288..296].try_into().unwrap());
    if n > (b.len() - 296) as u64 {
        return None;
    }
    Some(&b[296..296 + n as usize])
}

pub fn verify(cx: &mut Ctx, op: &Value, it: &mut Interner) -> Value {
    let kind = op["kind"].as_str().unwrap();
    let mut ev = json!({"t": "verify", "kind": kind, "msg": op["msg"], "mods": op.get("mods").cloned().unwrap_or(json!([])),
                        "tag": op.get("tag").cloned().unwrap_or(json!("")),
                        "must": op.get("must").cloned().unwrap_or(json!(""))});
    let Some(r) = cx.rln.as_mut() else {
        ev["res"] = json!("noinstance");
        return ev;
    };
    let Some(m) = cx.msgs.get(op["msg"].as_str().unwrap_or("")) else {
        ev["res"] = json!("nomsg");
        return ev;
    };
    let mods: Vec<Value> = op.get("mods").and_then(|x| x.as_array()).cloned().unwrap_or_default();
    let bytes = apply_mods(full_message(m, kind != "raw"), &mods);
    if kind != "raw" {
        if let Some(s) = carried_signal(&bytes) {
            let s = s.to_vec();
            it.keccak(&s);
        }
    }
    ev["bytes"] = json!(bytes);
    let tr = get_root(r);
    ev["treeroot"] = json!(tr.map(|v| fr_le_bytes(&v)).unwrap_or_default());
    match kind {
        "raw" => verdict(catch(AssertUnwindSafe(|| r.verify(rd(bytes.clone())))), &mut ev),
        "stateful" => verdict(catch(AssertUnwindSafe(|| r.verify_rln_proof(rd(bytes.clone())))), &mut ev),
        "roots" => {
            let mut roots: Vec<Vec<u8>> = Vec::new();
            for (k, d) in op.get("roots").and_then(|x| x.as_array()).cloned().unwrap_or_default().iter().enumerate() {
                match d.as_str().unwrap() {
                    "cur" => roots.push(tr.map(|v| fr_le_bytes(&v)).unwrap_or(vec![0; 32])),
                    "msg" => roots.push(fr_le_bytes(&m.root_at_proof)),
                    "zero" => roots.push(vec![0; 32]),
                    x if x.starts_with("straddle") => {
                        // two records that do NOT contain the message's root, but whose concatenation contains its 32
                        // bytes across the record boundary (shifted by k bytes)
                        let kk: usize = x["straddle".len()..].parse().unwrap();
                        let rt = fr_le_bytes(&m.root_at_proof);
                        let mut r1 = vec![0xA5u8; kk];
                        r1.extend_from_slice(&rt[..32 - kk]);
                        let mut r2 = rt[32 - kk..].to_vec();
                        r2.extend(std::iter::repeat(0x5Au8).take(32 - kk));
                        // (records must be canonical field encodings or not: the verifier is only asked about membership)
                        roots.push(r1);
                        roots.push(r2);
                    }
                    _ => roots.push(fr_le_bytes(&fv(&json!({"k": "rnd", "s": 1000 + k as u64})))),
                }
            }
            let mut rb: Vec<u8> = roots.iter().flatten().cloned().collect();
            if let Some(n) = op.get("roots_extra").and_then(|x| x.as_u64()) {
                rb.extend(std::iter::repeat(0x11u8).take(n as usize)); // trailing partial entry
            }
            ev["roots"] = json!(roots);
            ev["roots_extra"] = json!(op.get("roots_extra").and_then(|x| x.as_u64()).unwrap_or(0));
            verdict(catch(AssertUnwindSafe(|| r.verify_with_roots(rd(bytes.clone()), rd(rb.clone())))), &mut ev)
        }
        k => panic!("unknown verify kind {k}"),
    }
    ev
}

pub fn recover(cx: &mut Ctx, op: &Value, _it: &mut Interner) -> Value {
    let mut ev = json!({"t": "recover", "a": op["a"], "b": op["b"], "tag": op.get("tag").cloned().unwrap_or(json!(""))});
    let Some(r) = cx.rln.as_mut() else {
        ev["res"] = json!("noinstance");
        return ev;
    };
    let (Some(ma), Some(mb)) = (cx.msgs.get(op["a"].as_str().unwrap_or("")), cx.msgs.get(op["b"].as_str().unwrap_or(""))) else {
        ev["res"] = json!("nomsg");
        return ev;
    };
    let with_sig = op.get("with_signal").and_then(|x| x.as_bool()).unwrap_or(false);
    let ba = apply_mods(full_message(ma, with_sig), &op.get("mods_a").and_then(|x| x.as_array()).cloned().unwrap_or_default());
    let bb = apply_mods(full_message(mb, with_sig), &op.get("mods_b").and_then(|x| x.as_array()).cloned().unwrap_or_default());
    ev["bytes_a"] = json!(ba);
    ev["bytes_b"] = json!(bb);
    let mut out = Vec::new();
    match catch(AssertUnwindSafe(|| r.recover_id_secret(rd(ba.clone()), rd(bb.clone()), &mut out))) {
        Ok(Ok(())) => ev["res"] = json!("ok"),
        Ok(Err(e)) => {
            ev["res"] = json!("err");
            ev["msg_err"] = json!(e.to_string());
        }
        Err(m) => {
            ev["res"] = json!("panic");
            ev["msg_err"] = json!(m.chars().take(100).collect::<String>());
        }
    }
    ev["out"] = json!(out);
    ev
}

/// a message built without the prover: arbitrary proof bytes + the library's values for (s, e, mid, x)
/// (recovery never looks at the proof part); x, y may be overridden to craft degenerate shares
pub fn craft(cx: &mut Ctx, op: &Value, it: &mut Interner) -> Value {
    let s = fv(&op["s"]);
    let e = fv(&op["e"]);
    let mid = fv(&op["mid"]);
    let lim = fv(&op.get("lim").cloned().unwrap_or(json!({"k": "int", "v": 65535})));
    let sig = signal_of(&op["sig"]);
    let x = match op.get("x") {
        Some(d) => fv(d),
        None => it.keccak(&sig),
    };
    let path = vec![Fr::from(0u64); 20];
    let bits = vec![0u8; 20];
    let wb = witness_bytes(&s, &lim, &mid, &path, &bits, &x, &e);
    let mut ev = json!({"t": "craft", "name": op["name"], "s": it.id(&s), "e": it.id(&e), "mid": it.id(&mid), "x": it.id(&x)});
    let r = catch(AssertUnwindSafe(|| -> color_eyre::Result<Vec<u8>> {
        let (w, _) = deserialize_witness(&wb)?;
        let pv = proof_values_from_witness(&w)?;
        Ok(serialize_proof_values(&pv))
    }));
    match r {
        Ok(Ok(mut vals)) => {
            if let Some(d) = op.get("y") {
                vals[96..128].copy_from_slice(&enc_fr(&fv(d)));
                ev["offline"] = json!(true); // the share was moved off the line on purpose
            }
            let mut bytes = vec![0xabu8; 128];
            bytes.extend(vals);
            ev["res"] = json!("ok");
            ev["out"] = out_facts(it, &s, &lim, &mid, &e, &x, &path, &bits);
            ev["fields"] = decode_values(it, &bytes);
            ev["msg"] = json!(bytes);
            cx.msgs.insert(op["name"].as_str().unwrap().to_string(), Msg { bytes, signal: sig, root_at_proof: Fr::from(0u64) });
        }
        Ok(Err(e)) => {
            ev["res"] = json!("err");
            ev["msg_err"] = json!(e.to_string());
        }
        Err(m) => {
            ev["res"] = json!("panic");
            ev["msg_err"] = json!(m);
        }
    }
    ev
}

pub fn tree_op(cx: &mut Ctx, op: &Value, it: &mut Interner) -> Value {
    let mut ev = json!({"t": "tree", "op": op});
    let Some(r) = cx.rln.as_mut() else {
        ev["res"] = json!("noinstance");
        return ev;
    };
    let c = op["c"].as_str().unwrap();
    let res = catch(AssertUnwindSafe(|| -> color_eyre::Result<()> {
        match c {
            "reg" => r.set_leaf(op["i"].as_u64().unwrap() as usize, rd(enc_fr(&rc_of(it, &fv(&op["s"]), &fv(&op["lim"]))))),
            "regnext" => r.set_next_leaf(rd(enc_fr(&rc_of(it, &fv(&op["s"]), &fv(&op["lim"]))))),
            "regrange" => {
                let ls: Vec<Fr> = op["ids"].as_array().unwrap().iter().map(|p| rc_of(it, &fv(&p[0]), &fv(&p[1]))).collect();
                r.set_leaves_from(op["i"].as_u64().unwrap() as usize, rd(enc_vec_fr(&ls)))
            }
            "regbatch" => {
                let ls: Vec<Fr> = op["ids"].as_array().unwrap().iter().map(|p| rc_of(it, &fv(&p[0]), &fv(&p[1]))).collect();
                let rem: Vec<u8> = op["rem"].as_array().unwrap().iter().map(|x| x.as_u64().unwrap() as u8).collect();
                r.atomic_operation(op["i"].as_u64().unwrap() as usize, rd(enc_vec_fr(&ls)), rd(enc_vec_u8(&rem)))
            }
            "setraw" => r.set_leaf(op["i"].as_u64().unwrap() as usize, rd(enc_fr(&fv(&op["v"])))),
            "del" => r.delete_leaf(op["i"].as_u64().unwrap() as usize),
            "fill" => {
                let mut rg = ChaCha20Rng::seed_from_u64(op["seed"].as_u64().unwrap());
                for _ in 0..op["n"].as_u64().unwrap() {
                    let mut i = rg.gen_range(0..(1usize << 20));
                    if Some(i as u64) == op.get("avoid").and_then(|x| x.as_u64()) {
                        i ^= 1;
                    }
                    let mut b = [0u8; 32];
                    rg.fill_bytes(&mut b);
                    r.set_leaf(i, Cursor::new(enc_fr(&big_fr(&(BigUint::from_bytes_le(&b) % modulus())))))?;
                }
                Ok(())
            }
            x => panic!("unknown tree op {x}"),
        }
    }));
    ev["res"] = match res {
        Ok(Ok(())) => json!("ok"),
        Ok(Err(_)) => json!("err"),
        Err(_) => json!("panic"),
    };
    if let Some(rt) = get_root(r) {
        ev["treeroot"] = json!(fr_le_bytes(&rt));
    }
    ev
}

pub fn run(scenario: &[Value], it: &mut Interner, out: &mut Vec<Value>, dbdir: &str) {
    it.want_bytes = true;
    let mut cx = Ctx { rln: None, msgs: HashMap::new(), cfg: Value::Null };
    let mut ndb = 0usize;
    let mut dbs: Vec<String> = Vec::new();
    for (k, op) in scenario.iter().enumerate() {
        let mut ev = match op["c"].as_str().unwrap() {
            "reset" => {
                drop(cx.rln.take());
                cx.msgs.clear();
                cx.cfg = Value::Null;
                if op.get("persist").and_then(|x| x.as_bool()).unwrap_or(false) {
                    ndb += 1;
                    let path = format!("{dbdir}/db{ndb}");
                    let _ = std::fs::remove_dir_all(&path);
                    cx.cfg = json!({"path": path, "temporary": false});
                    dbs.push(path);
                }
                let cfg = cx.cfg.clone();
                let r = catch(AssertUnwindSafe(|| new_rln(20, &cfg)));
                let mut ev = json!({"t": "reset"});
                match r {
                    Ok(Ok(r)) => {
                        cx.rln = Some(r);
                        ev["res"] = json!("ok");
                    }
                    _ => ev["res"] = json!("err"),
                }
                ev
            }
            "foreign" => {
                // another instance of the same process, configured with OTHER circuit resources of the same size (one
                // constant of the bundled graph changed through the library's own (de)serialiser), proves once; what it
                // returns is its own business - the instance under observation must not be affected by it
                let mut ev = json!({"t": "foreign"});
                let done = catch(AssertUnwindSafe(|| foreign_instance_proves()));
                ev["res"] = json!(match done { Ok(x) => x, Err(_) => "panic".to_string() });
                ev
            }
            "reopen" => {
                // the node restarts: flush, close, open the same location again (messages on the wire stay)
                let mut ev = json!({"t": "reopen"});
                if let Some(mut r) = cx.rln.take() {
                    let f = catch(AssertUnwindSafe(|| r.flush()));
                    ev["flush"] = json!(matches!(f, Ok(Ok(()))));
                    drop(r);
                }
                let cfg = cx.cfg.clone();
                match catch(AssertUnwindSafe(|| new_rln(20, &cfg))) {
                    Ok(Ok(r)) => {
                        ev["res"] = json!("ok");
                        if let Some(rt) = get_root(&r) {
                            ev["treeroot"] = json!(fr_le_bytes(&rt));
                        }
                        cx.rln = Some(r);
                    }
                    _ => ev["res"] = json!("err"),
                }
                ev
            }
            "prove" => prove(&mut cx, op, it),
            "verify" => verify(&mut cx, op, it),
            "recover" => recover(&mut cx, op, it),
            "craft" => craft(&mut cx, op, it),
            _ => tree_op(&mut cx, op, it),
        };
        ev["k"] = json!(k);
        out.push(ev);
    }
    drop(cx.rln.take());
    for d in dbs {
        let _ = std::fs::remove_dir_all(d);
    }
}


/// see op "foreign"
fn foreign_instance_proves() -> String {
    use rln::circuit::iden3calc::graph::Node;
    use rln::circuit::iden3calc::storage::{deserialize_witnesscalc_graph, serialize_witnesscalc_graph};
    use rln::circuit::{graph_from_folder, ZKEY_BYTES};
    let orig = graph_from_folder();
    let Ok((mut nodes, outputs, info)) = deserialize_witnesscalc_graph(Cursor::new(orig)) else { return "no-graph".into() };
    // the last full-width constant gets another full-width value: same encoded size
    let mut changed = false;
    for n in nodes.iter_mut().rev() {
        if let Node::MontConstant(c) = n {
            use ark_ff::PrimeField;
            if c.into_bigint().0[3] != 0 {
                *c = *c - Fr::from(1u64);
                changed = true;
                break;
            }
        }
    }
    if !changed {
        return "no-constant".into();
    }
    let mut bytes = Vec::new();
    if serialize_witnesscalc_graph(&mut bytes, &nodes, &outputs, &info).is_err() {
        return "no-serialise".into();
    }
    if bytes.len() != orig.len() {
        return format!("size {} != {}", bytes.len(), orig.len());
    }
    let Ok(mut other) = RLN::new_with_params(20, ZKEY_BYTES.to_vec(), bytes, Cursor::new(Vec::<u8>::new())) else { return "no-instance".into() };
    let s = Fr::from(424242u64);
    let lim = Fr::from(10u64);
    let rc = rln::hashers::poseidon_hash(&[rln::hashers::poseidon_hash(&[s]), lim]);
    let _ = other.set_leaf(1, Cursor::new(crate::rln_exec::enc_fr(&rc)));
    let req = rln::protocol::prepare_prove_input(s, 1, lim, Fr::from(1u64), Fr::from(5u64), b"x");
    let mut o = Vec::new();
    match other.generate_rln_proof(Cursor::new(req), &mut o) {
        Ok(()) => "proved".into(),
        Err(_) => "refused".into(),
    }
}
