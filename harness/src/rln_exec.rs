// Executor for tree scenarios through the public RLN API (byte-level I/O), at small depth (full
// observation) and at depth 20 (sparse observation). Executes and records; decides nothing.
#![cfg(not(feature = "stateless"))]
use crate::intern::{fr_le_bytes, Interner};
use crate::util::*;
use rln::circuit::Fr;
use rln::public::RLN;
use serde_json::{json, Value};
use std::collections::BTreeSet;
use std::io::Cursor;
use std::panic::AssertUnwindSafe;

// ---- the harness's own encoders/decoders of the documented layouts (independent of rln::utils) ----
pub fn enc_fr(v: &Fr) -> Vec<u8> {
    fr_le_bytes(v)
}
pub fn enc_vec_fr(vs: &[Fr]) -> Vec<u8> {
    let mut b = (vs.len() as u64).to_le_bytes().to_vec();
    for v in vs {
        b.extend(enc_fr(v));
    }
    b
}
pub fn enc_vec_u8(vs: &[u8]) -> Vec<u8> {
    let mut b = (vs.len() as u64).to_le_bytes().to_vec();
    b.extend_from_slice(vs);
    b
}
pub fn dec_fr(b: &[u8]) -> Option<Fr> {
    use ark_ff::PrimeField;
    if b.len() != 32 {
        return None;
    }
    // canonical only: value must be below the modulus
    let v = Fr::from_le_bytes_mod_order(b);
    if fr_le_bytes(&v) == b {
        Some(v)
    } else {
        None
    }
}
/// get_proof bytes: vec_fr(path elements) ++ vec_u8(direction bits)
pub fn dec_proof(b: &[u8]) -> Option<(Vec<Fr>, Vec<u8>)> {
    if b.len() < 8 {
        return None;
    }
    let n = u64::from_le_bytes(b[0..8].try_into().unwrap()) as usize;
    if b.len() < 8 + 32 * n + 8 {
        return None;
    }
    let mut sibs = Vec::new();
    for k in 0..n {
        sibs.push(dec_fr(&b[8 + 32 * k..8 + 32 * (k + 1)])?);
    }
    let off = 8 + 32 * n;
    let m = u64::from_le_bytes(b[off..off + 8].try_into().unwrap()) as usize;
    if b.len() != off + 8 + m {
        return None;
    }
    Some((sibs, b[off + 8..].to_vec()))
}
/// get_empty_leaves_indices bytes: u64 count, then u64 LE each
pub fn dec_indices(b: &[u8]) -> Option<Vec<usize>> {
    if b.len() < 8 {
        return None;
    }
    let n = u64::from_le_bytes(b[0..8].try_into().unwrap()) as usize;
    if b.len() != 8 + 8 * n {
        return None;
    }
    Some((0..n).map(|k| u64::from_le_bytes(b[8 + 8 * k..16 + 8 * k].try_into().unwrap()) as usize).collect())
}

pub fn new_rln(d: usize, cfg: &Value) -> color_eyre::Result<RLN> {
    let conf = if cfg.is_null() { json!({}) } else { json!({ "tree_config": cfg }) };
    RLN::new(d, Cursor::new(conf.to_string()))
}

fn get_fr(r: &RLN, f: impl FnOnce(&RLN, &mut Vec<u8>) -> color_eyre::Result<()>) -> Result<Fr, String> {
    let mut out = Vec::new();
    match f(r, &mut out) {
        Ok(()) => dec_fr(&out).ok_or_else(|| format!("bad field encoding ({} bytes)", out.len())),
        Err(e) => Err(e.to_string()),
    }
}

fn obs_proof(r: &RLN, i: usize, leaf: Option<Fr>, it: &mut Interner) -> Value {
    let mut p = json!({"i": i});
    let mut out = Vec::new();
    match r.get_proof(i, &mut out) {
        Err(_) => p["res"] = json!("err"),
        Ok(()) => match dec_proof(&out) {
            None => {
                p["res"] = json!("malformed");
                p["nbytes"] = json!(out.len());
            }
            Some((sibs, bits)) => {
                p["res"] = json!("ok");
                p["sib"] = json!(sibs.iter().map(|s| it.id(s)).collect::<Vec<_>>());
                p["bits"] = json!(bits);
                p["len"] = json!(sibs.len());
                if let Some(leaf) = leaf {
                    crate::tree_exec::fold(it, &leaf, &sibs, &bits);
                    let other = leaf + Fr::from(1u64);
                    crate::tree_exec::fold(it, &other, &sibs, &bits);
                    p["altleaf"] = json!(it.id(&other));
                }
            }
        },
    }
    p
}

fn obs_empties(r: &RLN, o: &mut Value) {
    let mut eb = Vec::new();
    match r.get_empty_leaves_indices(&mut eb) {
        Ok(()) => match dec_indices(&eb) {
            Some(v) => o["empties"] = json!(v),
            None => o["empties_err"] = json!("malformed"),
        },
        Err(_) => o["empties_err"] = json!("err"),
    }
}

/// complete observation through the API (depth <= 5)
pub fn observe_small(r: &mut RLN, d: usize, it: &mut Interner) -> Value {
    let cap = 1usize << d;
    let mut o = json!({"cap": cap, "depth": d});
    o["next"] = json!(r.leaves_set());
    obs_empties(r, &mut o);
    let mut leaves = Vec::new();
    let mut leaf_vals = Vec::new();
    for i in 0..cap {
        match get_fr(r, |r, w| r.get_leaf(i, w)) {
            Ok(v) => {
                leaves.push(json!(it.id(&v)));
                leaf_vals.push(Some(v));
            }
            Err(_) => {
                leaves.push(json!(-1));
                leaf_vals.push(None);
            }
        }
    }
    o["leaves"] = json!(leaves);
    o["get_oob"] = json!(if get_fr(r, |r, w| r.get_leaf(cap, w)).is_err() { "err" } else { "ok" });
    let mut nodes: Vec<Vec<Value>> = Vec::new();
    for l in 0..=d {
        let mut row = Vec::new();
        for i in 0..(1usize << l) {
            match get_fr(r, |r, w| r.get_subtree_root(l, i << (d - l), w)) {
                Ok(v) => row.push(json!(it.id(&v))),
                Err(_) => row.push(json!(-1)),
            }
        }
        nodes.push(row);
    }
    for l in 0..d {
        for i in 0..(1usize << l) {
            if let (Some(a), Some(b)) = (nodes[l + 1][2 * i].as_u64(), nodes[l + 1][2 * i + 1].as_u64()) {
                let (a, b) = (it.val(a as u32), it.val(b as u32));
                it.hash2(&a, &b);
            }
        }
    }
    o["nodes"] = json!(nodes);
    o["root"] = match get_fr(r, |r, w| r.get_root(w)) {
        Ok(v) => json!(it.id(&v)),
        Err(_) => json!(-1),
    };
    let mut proofs = Vec::new();
    for i in crate::util::proof_order(cap) {
        proofs.push(obs_proof(r, i, leaf_vals[i], it));
    }
    proofs.sort_by_key(|p| p["i"].as_u64().unwrap());
    o["proofs"] = json!(proofs);
    // get_proof beyond the capacity: recorded separately because it may crash (C12/C11 look at that)
    let mut mb = Vec::new();
    o["meta"] = match r.get_metadata(&mut mb) {
        Ok(()) => json!(mb),
        Err(_) => json!("err"),
    };
    o
}

/// sparse observation (depth 20): touched positions + probes; the hash facts the judge needs for the
/// ideal root are produced by folding the OBSERVED leaves (a missing fact is a tool error, not a verdict)
pub fn observe_sparse(r: &mut RLN, d: usize, touched: &BTreeSet<usize>, it: &mut Interner) -> Value {
    let mut o = json!({"sparse": true, "depth": d});
    let next = r.leaves_set();
    o["next"] = json!(next);
    if next <= 4096 {
        obs_empties(r, &mut o);
    }
    let mut tl = Vec::new();
    let mut vals = std::collections::BTreeMap::new();
    for &i in touched {
        match get_fr(r, |r, w| r.get_leaf(i, w)) {
            Ok(v) => {
                tl.push(json!([i, it.id(&v)]));
                vals.insert(i, v);
            }
            Err(_) => tl.push(json!([i, -1])),
        }
    }
    o["touched"] = json!(tl);
    // the same for the judge in a cheaper shape: watched positions, and the non-default leaves among them
    o["tp"] = json!(touched.iter().cloned().collect::<Vec<usize>>());
    o["nz"] = json!(vals.iter().filter(|(_, v)| **v != Fr::from(0u64)).map(|(k, v)| json!([k, it.id(v)])).collect::<Vec<_>>());
    o["unread"] = json!(touched.iter().filter(|i| !vals.contains_key(i)).count());
    o["root"] = match get_fr(r, |r, w| r.get_root(w)) {
        Ok(v) => json!(it.id(&v)),
        Err(_) => json!(-1),
    };
    // default-subtree chain and the sparse fold of the observed leaves
    let mut zs = vec![Fr::from(0u64); d + 1];
    for l in (0..d).rev() {
        zs[l] = it.hash2(&zs[l + 1].clone(), &zs[l + 1].clone());
    }
    o["zs"] = json!(zs.iter().map(|z| it.id(z)).collect::<Vec<_>>());
    let mut level: std::collections::BTreeMap<usize, Fr> = vals.iter().filter(|(_, v)| **v != Fr::from(0u64)).map(|(k, v)| (*k, *v)).collect();
    for l in (0..d).rev() {
        let mut up = std::collections::BTreeMap::new();
        let keys: Vec<usize> = level.keys().cloned().collect();
        for k in keys {
            let p = k >> 1;
            if up.contains_key(&p) {
                continue;
            }
            let a = level.get(&(p << 1)).cloned().unwrap_or(zs[l + 1]);
            let b = level.get(&((p << 1) + 1)).cloned().unwrap_or(zs[l + 1]);
            up.insert(p, it.hash2(&a, &b));
        }
        level = up;
    }
    let mut proofs = Vec::new();
    for i in crate::tree_exec::proof_positions(touched, next) {
        proofs.push(obs_proof(r, i, vals.get(&i).cloned(), it));
    }
    o["proofs"] = json!(proofs);
    let mut mb = Vec::new();
    o["meta"] = match r.get_metadata(&mut mb) {
        Ok(()) => json!(mb),
        Err(_) => json!("err"),
    };
    o
}

pub fn apply(r: &mut RLN, op: &Value) -> color_eyre::Result<()> {
    let fr = |v: &Value| Fr::from(v.as_u64().unwrap());
    let frs = |v: &Value| v.as_array().unwrap().iter().map(|x| Fr::from(x.as_u64().unwrap())).collect::<Vec<_>>();
    match op["c"].as_str().unwrap() {
        "set" => r.set_leaf(op["i"].as_u64().unwrap() as usize, crate::proto_exec::rd(enc_fr(&fr(&op["v"])))),
        "delete" => r.delete_leaf(op["i"].as_u64().unwrap() as usize),
        "append" => r.set_next_leaf(crate::proto_exec::rd(enc_fr(&fr(&op["v"])))),
        "range" => r.set_leaves_from(op["s"].as_u64().unwrap() as usize, crate::proto_exec::rd(enc_vec_fr(&frs(&op["vs"])))),
        "override" => {
            let rem: Vec<u8> = op["rem"].as_array().unwrap().iter().map(|x| x.as_u64().unwrap() as u8).collect();
            r.atomic_operation(
                op["s"].as_u64().unwrap() as usize,
                crate::proto_exec::rd(enc_vec_fr(&frs(&op["vs"]))),
                crate::proto_exec::rd(enc_vec_u8(&rem)),
            )
        }
        "init" => r.init_tree_with_leaves(crate::proto_exec::rd(enc_vec_fr(&frs(&op["vs"])))),
        "set_meta" => r.set_metadata(&bytes_of(&op["m"])),
        "flush" => r.flush(),
        c => panic!("unknown scenario op {c}"),
    }
}

pub use crate::tree_exec::touched_by;

pub fn run(scenario: &[Value], it: &mut Interner, out: &mut Vec<Value>) {
    let mut rln: Option<RLN> = None;
    let mut d = 0usize;
    let mut touched: BTreeSet<usize> = BTreeSet::new();
    for (k, op) in scenario.iter().enumerate() {
        if op["c"] == "reset" {
            d = op["d"].as_u64().unwrap() as usize;
            drop(rln.take());
            touched.clear();
            if d > 5 {
                for p in op.get("probe").and_then(|x| x.as_array()).cloned().unwrap_or_default() {
                    touched.insert(p.as_u64().unwrap() as usize);
                }
            }
            let cfg = op.get("cfg").cloned().unwrap_or(Value::Null);
            let r = catch(AssertUnwindSafe(|| new_rln(d, &cfg)));
            let mut ev = json!({"t": "reset", "k": k, "tgt": "rln", "be": crate::BACKEND, "d": d});
            match r {
                Ok(Ok(mut r)) => {
                    let obs = catch(AssertUnwindSafe(|| if d <= 5 { observe_small(&mut r, d, it) } else { observe_sparse(&mut r, d, &touched, it) }));
                    ev["obs"] = obs.unwrap_or_else(|m| json!({"broken": m}));
                    ev["res"] = json!("ok");
                    rln = Some(r);
                }
                Ok(Err(e)) => {
                    ev["res"] = json!("err");
                    ev["msg"] = json!(e.to_string());
                    ev["obs"] = json!({"broken": "no instance"});
                }
                Err(m) => {
                    ev["res"] = json!("panic");
                    ev["msg"] = json!(m);
                    ev["obs"] = json!({"broken": "no instance"});
                }
            }
            out.push(ev);
            continue;
        }
        let Some(r) = rln.as_mut() else { continue };
        let nb = r.leaves_set();
        if op["c"] == "init" {
            // a re-initialised tree forgets nothing the judge must still look at
        }
        touched_by(op, nb, &mut touched, 1usize << d);
        let res = catch(AssertUnwindSafe(|| apply(r, op)));
        let mut ev = json!({"t": "op", "k": k, "tgt": "rln", "be": crate::BACKEND, "d": d, "op": op});
        match res {
            Ok(Ok(())) => ev["res"] = json!("ok"),
            Ok(Err(e)) => {
                ev["res"] = json!("err");
                ev["msg"] = json!(e.to_string());
            }
            Err(m) => {
                ev["res"] = json!("panic");
                ev["msg"] = json!(m);
            }
        }
        let obs = catch(AssertUnwindSafe(|| if d <= 5 { observe_small(r, d, it) } else { observe_sparse(r, d, &touched, it) }));
        ev["obs"] = obs.unwrap_or_else(|m| json!({"broken": m}));
        out.push(ev);
    }
}
