// C09 recorder: Poseidon and hash-to-field evaluations with certificates.
// For Poseidon the recorder also runs the permutation round by round in plain big-integer arithmetic and
// records every intermediate value and quotient: TLC (Poseidon.tla) verifies each step and that the
// final state equals what the LIBRARY returned. The recorder's own computation is untrusted advice.
#![cfg(not(feature = "stateless"))]
use crate::proto_exec::{big_fr, fr_big, modulus};
use crate::util::*;
use num_bigint::BigUint;
use rand::{Rng, RngCore, SeedableRng};
use rand_chacha::ChaCha20Rng;
use rln::circuit::Fr;
use rln::hashers::{hash_to_field, poseidon_hash};
use serde_json::{json, Value};
use std::io::Cursor;
use std::panic::AssertUnwindSafe;

fn le(b: &BigUint) -> Vec<u8> {
    let mut v = b.to_bytes_le();
    while v.last() == Some(&0) {
        v.pop();
    }
    v
}
fn big_of(v: &Value) -> BigUint {
    BigUint::from_bytes_le(&bytes_of(v))
}

pub fn poseidon_cert(consts: &Value, inp: &[BigUint]) -> Value {
    let p = modulus();
    let t = inp.len() + 1;
    let idx = t - 2;
    let rf = consts["RF"][idx].as_u64().unwrap() as usize;
    let rp = consts["RP"][idx].as_u64().unwrap() as usize;
    let c: Vec<BigUint> = consts["C"][idx].as_array().unwrap().iter().map(big_of).collect();
    let m: Vec<Vec<BigUint>> = consts["M"][idx].as_array().unwrap().iter().map(|r| r.as_array().unwrap().iter().map(big_of).collect()).collect();
    let mut state: Vec<BigUint> = vec![BigUint::from(0u8)];
    state.extend(inp.iter().cloned());
    let mut rounds = Vec::new();
    for r in 0..(rf + rp) {
        let a: Vec<BigUint> = (0..t).map(|i| (&state[i] + &c[r * t + i]) % &p).collect();
        let full = r < rf / 2 || r >= rf / 2 + rp;
        let mut b = a.clone();
        let mut sb = Vec::new();
        for i in 0..t {
            if full || i == 0 {
                let x2 = (&a[i] * &a[i]) % &p;
                let x4 = (&x2 * &x2) % &p;
                let x5 = (&x4 * &a[i]) % &p;
                sb.push(json!({"x2": le(&x2), "q1": le(&((&a[i] * &a[i]) / &p)), "x4": le(&x4), "q2": le(&((&x2 * &x2) / &p)),
                               "x5": le(&x5), "q3": le(&((&x4 * &a[i]) / &p))}));
                b[i] = x5;
            }
        }
        let mut out = Vec::new();
        let mut qs = Vec::new();
        for i in 0..t {
            let mut acc = BigUint::from(0u8);
            for j in 0..t {
                acc += &m[i][j] * &b[j];
            }
            qs.push(le(&(&acc / &p)));
            out.push(&acc % &p);
        }
        rounds.push(json!({"sbox": sb, "out": out.iter().map(le).collect::<Vec<_>>(), "q": qs}));
        state = out;
    }
    json!({"rounds": rounds})
}

/// zkexec hashes --seed N --consts FILE --tier T --out T
pub fn run(seed: u64, consts_path: &str, thorough: bool, out: &mut Vec<Value>) {
    let consts: Value = serde_json::from_str(&std::fs::read_to_string(consts_path).unwrap()).unwrap();
    let mut r = ChaCha20Rng::seed_from_u64(seed);
    let p = modulus();
    let rnd = |r: &mut ChaCha20Rng| {
        let mut b = [0u8; 32];
        r.fill_bytes(&mut b);
        BigUint::from_bytes_le(&b) % &p
    };
    let one = BigUint::from(1u8);
    for n in 1..=8usize {
        let mut vecs: Vec<Vec<BigUint>> = vec![(0..n).map(|_| rnd(&mut r)).collect()];
        if thorough || n <= 3 {
            vecs.push((0..n).map(|k| match k % 3 { 0 => BigUint::from(0u8), 1 => &p - &one, _ => one.clone() }).collect());
        }
        if thorough {
            vecs.push(vec![rnd(&mut r); n]); // equal elements
        }
        // histories: the same values in other places / a vector that differs from the previous one only in its
        // last element, evaluated right after it (state kept between evaluations would show)
        if n >= 2 && (thorough || n <= 3) {
            let mut w = vecs[0].clone();
            w.rotate_left(1);
            vecs.insert(1, w);
        }
        if n == 2 || (thorough && n >= 2) {
            let mut w = vecs[0].clone();
            let k = w.len() - 1;
            w[k] = rnd(&mut r);
            vecs.insert(1, w);
            vecs.insert(2, vecs[0].clone()); // and the first one again
        }
        for v in vecs {
            let frs: Vec<Fr> = v.iter().map(big_fr).collect();
            let lib = catch(AssertUnwindSafe(|| poseidon_hash(&frs)));
            // the byte-level entry point and the FFI must return the same
            let enc = crate::rln_exec::enc_vec_fr(&frs);
            let mut o1 = Vec::new();
            let r1 = catch(AssertUnwindSafe(|| rln::public::poseidon_hash(Cursor::new(enc.clone()), &mut o1)));
            let ib = rln::ffi::Buffer { ptr: enc.as_ptr(), len: enc.len() };
            let mut ob = rln::ffi::Buffer { ptr: std::ptr::null(), len: 0 };
            let okf = rln::ffi::poseidon_hash(&ib, &mut ob);
            let o2 = if okf && !ob.ptr.is_null() { unsafe { std::slice::from_raw_parts(ob.ptr, ob.len) }.to_vec() } else { vec![] };
            // from several threads
            let thr: Vec<Vec<u8>> = (0..4).map(|_| { let f = frs.clone(); std::thread::spawn(move || le(&fr_big(&poseidon_hash(&f)))).join().unwrap_or_default() }).collect();
            let mut ev = json!({"t": "poseidon", "n": n, "inp": v.iter().map(le).collect::<Vec<_>>(), "cert": poseidon_cert(&consts, &v),
                                "bytes_api": o1, "bytes_api_ok": matches!(r1, Ok(Ok(()))), "bytes_ffi": o2, "threads": thr});
            match lib {
                Ok(h) => {
                    ev["res"] = json!("ok");
                    ev["out"] = json!(le(&fr_big(&h)));
                }
                Err(_) => ev["res"] = json!("panic"),
            }
            out.push(ev);
        }
    }
    // hash-to-field: block-boundary lengths of Keccak-256 (rate 136)
    let lens: Vec<usize> = if thorough { vec![0, 1, 31, 32, 33, 135, 136, 137, 271, 272, 273, 1000, 4095, 4096, 4097, 8192, 10000] } else { vec![0, 1, 135, 136, 137, 272, 300, 4096, 4097] };
    let mut prev: Vec<u8> = Vec::new();
    let mut msgs: Vec<Vec<u8>> = Vec::new();
    let mut hcount = 0usize;
    for n in lens {
        let m: Vec<u8> = (0..n).map(|_| r.gen()).collect();
        msgs.push(m.clone());
        if n == 136 || n == 1 {
            // same length, same prefix, last byte differs; then the first one again
            let mut m2 = m.clone();
            m2[n - 1] ^= 0x80;
            msgs.push(m2);
            msgs.push(m.clone());
        }
        prev = m;
    }
    let _ = prev;
    for m in msgs {
        let n = m.len();
        let _ = n;
        let h = catch(AssertUnwindSafe(|| hash_to_field(&m)));
        let mut o1 = Vec::new();
        // the byte-level entry point takes any reader: at once, a few bytes per call, or with interruptions to retry
        hcount += 1;
        let _ = match hcount % 3 {
            0 => rln::public::hash(Cursor::new(m.clone()), &mut o1),
            1 => rln::public::hash(crate::misc_exec::Chunked { data: m.clone(), pos: 0, chunk: 61 }, &mut o1),
            _ => rln::public::hash(crate::misc_exec::Interrupting { inner: crate::misc_exec::Chunked { data: m.clone(), pos: 0, chunk: 1000 }, calls: 0 }, &mut o1),
        };
        let ib = rln::ffi::Buffer { ptr: m.as_ptr(), len: m.len() };
        let mut ob = rln::ffi::Buffer { ptr: std::ptr::null(), len: 0 };
        let okf = rln::ffi::hash(&ib, &mut ob);
        let o2 = if okf && !ob.ptr.is_null() { unsafe { std::slice::from_raw_parts(ob.ptr, ob.len) }.to_vec() } else { vec![] };
        let thr: Vec<Vec<u8>> = (0..4).map(|_| { let mm = m.clone(); std::thread::spawn(move || le(&fr_big(&hash_to_field(&mm)))).join().unwrap_or_default() }).collect();
        let mut ev = json!({"t": "keccak", "msg": m, "bytes_api": o1, "bytes_ffi": o2, "threads": thr});
        match h {
            Ok(v) => {
                ev["res"] = json!("ok");
                ev["out"] = json!(le(&fr_big(&v)));
            }
            Err(_) => ev["res"] = json!("panic"),
        }
        out.push(ev);
    }
}

/// zkexec poseidon-consts --out FILE : the parameter sets the library generates at run time (the construction
/// rln::hashers uses for its global hasher: Poseidon::from(&ROUND_PARAMS)), in the layout of
/// spec/poseidon_constants.json: {T, RF, RP, C[idx][k], M[idx][i][j]} with values as little-endian bytes.
/// Grain.tla (TLC) decides whether they are the stream the parameter-generation specification produces.
pub fn dump_consts() -> Value {
    let params = rln::hashers::ROUND_PARAMS;
    let ps = zerokit_utils::Poseidon::<Fr>::from(&params);
    let rp = ps.get_parameters();
    json!({
        "T": rp.iter().map(|r| r.t).collect::<Vec<_>>(),
        "RF": rp.iter().map(|r| r.n_rounds_f).collect::<Vec<_>>(),
        "RP": rp.iter().map(|r| r.n_rounds_p).collect::<Vec<_>>(),
        "skip": rp.iter().map(|r| r.skip_matrices).collect::<Vec<_>>(),
        "C": rp.iter().map(|r| r.c.iter().map(|f| le(&fr_big(f))).collect::<Vec<_>>()).collect::<Vec<_>>(),
        "M": rp.iter().map(|r| r.m.iter().map(|row| row.iter().map(|f| le(&fr_big(f))).collect::<Vec<_>>()).collect::<Vec<_>>()).collect::<Vec<_>>(),
    })
}
