// C17: the same workload in every build configuration (feature set). Each build records roots, membership
// paths, messages and a digest of its proving key + constraint matrices; each build then verifies the
// messages of all the others. Values are recorded as bytes so that traces of different processes compare.
use crate::intern::fr_le_bytes;
use crate::util::*;
use ark_serialize::CanonicalSerialize;
use rln::circuit::zkey_from_folder;
use rln::public::RLN;
use serde_json::{json, Value};
use std::io::Cursor;
use std::panic::AssertUnwindSafe;

pub const CONFIG: &str = if cfg!(feature = "stateless") {
    "stateless"
} else if cfg!(feature = "arkzkey") {
    "arkzkey"
} else if cfg!(feature = "fullmerkletree") {
    "full"
} else if cfg!(feature = "pmtree") {
    "default"
} else {
    "optimal"
};

fn fnv(h: &mut u64, bytes: &[u8]) {
    for b in bytes {
        *h ^= *b as u64;
        *h = h.wrapping_mul(0x100000001b3);
    }
}

/// digest of (ProvingKey, ConstraintMatrices): every group element, every matrix coefficient and index
pub fn key_digest() -> Value {
    let (pk, m) = zkey_from_folder();
    let mut h: u64 = 0xcbf29ce484222325;
    let mut buf = Vec::new();
    pk.serialize_uncompressed(&mut buf).unwrap();
    fnv(&mut h, &buf);
    let pk_len = buf.len();
    let mut hm: u64 = 0xcbf29ce484222325;
    for x in [m.num_instance_variables, m.num_witness_variables, m.num_constraints, m.a_num_non_zero, m.b_num_non_zero, m.c_num_non_zero] {
        fnv(&mut hm, &(x as u64).to_le_bytes());
    }
    let mut rows = 0usize;
    for mat in [&m.a, &m.b, &m.c] {
        for row in mat.iter() {
            rows += 1;
            fnv(&mut hm, &(row.len() as u64).to_le_bytes());
            for (c, i) in row {
                fnv(&mut hm, &fr_le_bytes(c));
                fnv(&mut hm, &(*i as u64).to_le_bytes());
            }
        }
    }
    json!({"pk": format!("{h:016x}"), "pk_len": pk_len, "matrices": format!("{hm:016x}"), "rows": rows,
           "dims": [m.num_instance_variables, m.num_witness_variables, m.num_constraints, m.a_num_non_zero, m.b_num_non_zero, m.c_num_non_zero]})
}

/// arkzkey builds only: the snarkjs file and the arkworks file parsed side by side
#[cfg(feature = "arkzkey")]
pub fn key_files_equal() -> Value {
    use rln::circuit::{read_arkzkey_from_bytes_uncompressed, zkey::read_zkey, ARKZKEY_BYTES, ZKEY_BYTES};
    let a = catch(AssertUnwindSafe(|| read_zkey(&mut Cursor::new(ZKEY_BYTES))));
    let b = catch(AssertUnwindSafe(|| read_arkzkey_from_bytes_uncompressed(ARKZKEY_BYTES)));
    match (a, b) {
        (Ok(Ok((pk1, m1))), Ok(Ok((pk2, m2)))) => json!({
            "res": "ok", "pk": pk1 == pk2, "vk": pk1.vk == pk2.vk,
            "a": m1.a == m2.a, "b": m1.b == m2.b, "c": m1.c == m2.c,
            "dims": m1.num_instance_variables == m2.num_instance_variables && m1.num_witness_variables == m2.num_witness_variables
                && m1.num_constraints == m2.num_constraints && m1.a_num_non_zero == m2.a_num_non_zero
                && m1.b_num_non_zero == m2.b_num_non_zero && m1.c_num_non_zero == m2.c_num_non_zero}),
        _ => json!({"res": "err"}),
    }
}

#[cfg(not(feature = "stateless"))]
fn out_bytes(f: impl FnOnce(&mut Vec<u8>) -> color_eyre::Result<()>) -> Value {
    let mut o = Vec::new();
    match catch(AssertUnwindSafe(|| f(&mut o))) {
        Ok(Ok(())) => json!(o),
        Ok(Err(_)) => json!([-1]),
        Err(_) => json!([-2]),
    }
}

/// persistent builds keep each history's tree on its own storage location, so that a history can contain a restart
/// of the node (flush, drop, re-create on the same location); the in-memory builds just carry on
#[cfg(not(feature = "stateless"))]
fn tree_cfg(phase: &str, hist: usize) -> Value {
    if cfg!(all(feature = "pmtree", not(feature = "fullmerkletree"))) {
        let p = std::env::temp_dir().join(format!("zkexec-cfg-{}-{}-{}", std::process::id(), phase, hist));
        let _ = std::fs::remove_dir_all(&p);
        json!({"path": p.to_string_lossy(), "temporary": false})
    } else {
        Value::Null
    }
}

#[cfg(not(feature = "stateless"))]
fn restart(rln: &mut Option<RLN>, cfg: &Value) {
    if cfg.is_null() {
        return;
    }
    if let Some(mut r) = rln.take() {
        let _ = catch(AssertUnwindSafe(|| r.flush()));
        drop(r);
        *rln = crate::rln_exec::new_rln(20, cfg).ok();
    }
}

#[cfg(not(feature = "stateless"))]
fn cleanup(phase: &str, hists: usize) {
    for h in 0..=hists {
        let _ = std::fs::remove_dir_all(std::env::temp_dir().join(format!("zkexec-cfg-{}-{}-{}", std::process::id(), phase, h)));
    }
}

/// phase "produce": replay the history, record roots and paths, produce messages
#[cfg(not(feature = "stateless"))]
pub fn produce(scenario: &[Value], out: &mut Vec<Value>, msgs: &mut Vec<Value>) {
    use crate::proto_exec::{fv, signal_of};
    use crate::rln_exec::{apply, enc_fr, new_rln};
    out.push(json!({"t": "key", "cfg": CONFIG, "digest": key_digest()}));
    #[cfg(feature = "arkzkey")]
    out.push(json!({"t": "keyfiles", "cfg": CONFIG, "eq": key_files_equal()}));
    let mut rln: Option<RLN> = None;
    let mut hist = 0usize;
    let mut tcfg = Value::Null;
    for (k, op) in scenario.iter().enumerate() {
        match op["c"].as_str().unwrap() {
            "reset" => {
                hist += 1;
                drop(rln.take());
                tcfg = tree_cfg("produce", hist);
                rln = new_rln(20, &tcfg).ok();
            }
            "restart" => {
                restart(&mut rln, &tcfg);
                let Some(r) = rln.as_mut() else { continue };
                out.push(json!({"t": "step", "cfg": CONFIG, "hist": hist, "k": k, "res": true,
                                "root": out_bytes(|o| r.get_root(o)), "next": r.leaves_set()}));
            }
            "reg" => {
                // leaf = H(H(s), limit) computed with the library's hash of THIS build
                let Some(r) = rln.as_mut() else { continue };
                let s = fv(&op["s"]);
                let lim = fv(&op["lim"]);
                let rc = rln::hashers::poseidon_hash(&[rln::hashers::poseidon_hash(&[s]), lim]);
                let res = catch(AssertUnwindSafe(|| r.set_leaf(op["i"].as_u64().unwrap() as usize, Cursor::new(enc_fr(&rc)))));
                out.push(json!({"t": "step", "cfg": CONFIG, "hist": hist, "k": k, "res": matches!(res, Ok(Ok(()))),
                                "root": out_bytes(|o| r.get_root(o))}));
            }
            "prove" => {
                let Some(r) = rln.as_mut() else { continue };
                let sig = signal_of(&op["sig"]);
                let mut req = enc_fr(&fv(&op["s"]));
                req.extend(op["idx"].as_u64().unwrap().to_le_bytes());
                req.extend(enc_fr(&fv(&op["lim"])));
                req.extend(enc_fr(&fv(&op["mid"])));
                req.extend(enc_fr(&fv(&op["e"])));
                req.extend((sig.len() as u64).to_le_bytes());
                req.extend(&sig);
                let mut o = Vec::new();
                let res = catch(AssertUnwindSafe(|| r.generate_rln_proof(Cursor::new(req), &mut o)));
                let ok = matches!(res, Ok(Ok(())));
                out.push(json!({"t": "prove", "cfg": CONFIG, "hist": hist, "k": k, "res": ok}));
                if ok {
                    let mut m = o.clone();
                    m.extend((sig.len() as u64).to_le_bytes());
                    m.extend(&sig);
                    msgs.push(json!({"cfg": CONFIG, "hist": hist, "k": k, "bytes": m, "root": o[128..160].to_vec()}));
                }
            }
            "path" => {
                let Some(r) = rln.as_mut() else { continue };
                let i = op["i"].as_u64().unwrap() as usize;
                out.push(json!({"t": "path", "cfg": CONFIG, "hist": hist, "k": k, "i": i, "bytes": out_bytes(|o| r.get_proof(i, o)),
                                "leaf": out_bytes(|o| r.get_leaf(i, o))}));
            }
            _ => {
                let Some(r) = rln.as_mut() else { continue };
                let res = catch(AssertUnwindSafe(|| apply(r, op)));
                out.push(json!({"t": "step", "cfg": CONFIG, "hist": hist, "k": k, "res": matches!(res, Ok(Ok(()))),
                                "root": out_bytes(|o| r.get_root(o)), "next": r.leaves_set()}));
            }
        }
    }
    drop(rln);
    cleanup("produce", hist);
}

/// phase "verify": replay each history up to the point where a message was produced and verify it
#[cfg(not(feature = "stateless"))]
pub fn verify_others(scenario: &[Value], msgs: &[Value], out: &mut Vec<Value>) {
    use crate::proto_exec::fv;
    use crate::rln_exec::{apply, enc_fr, new_rln};
    let mut rln: Option<RLN> = None;
    let mut hist = 0usize;
    let mut tcfg = Value::Null;
    for (k, op) in scenario.iter().enumerate() {
        match op["c"].as_str().unwrap() {
            "reset" => {
                hist += 1;
                drop(rln.take());
                tcfg = tree_cfg("verify", hist);
                rln = new_rln(20, &tcfg).ok();
            }
            "restart" => restart(&mut rln, &tcfg),
            "reg" => {
                let Some(r) = rln.as_mut() else { continue };
                let rc = rln::hashers::poseidon_hash(&[rln::hashers::poseidon_hash(&[fv(&op["s"])]), fv(&op["lim"])]);
                let _ = catch(AssertUnwindSafe(|| r.set_leaf(op["i"].as_u64().unwrap() as usize, Cursor::new(enc_fr(&rc)))));
            }
            "prove" => {
                let Some(r) = rln.as_mut() else { continue };
                for m in msgs.iter().filter(|m| m["hist"] == hist && m["k"] == k && m["cfg"] != CONFIG) {
                    let b = bytes_of(&m["bytes"]);
                    let v = catch(AssertUnwindSafe(|| r.verify_rln_proof(Cursor::new(b.clone()))));
                    let w = catch(AssertUnwindSafe(|| r.verify_with_roots(Cursor::new(b.clone()), Cursor::new(bytes_of(&m["root"])))));
                    out.push(json!({"t": "xverify", "cfg": CONFIG, "producer": m["cfg"], "hist": hist, "k": k,
                                    "stateful": matches!(v, Ok(Ok(true))), "roots": matches!(w, Ok(Ok(true)))}));
                }
            }
            "path" => {}
            _ => {
                let Some(r) = rln.as_mut() else { continue };
                let _ = catch(AssertUnwindSafe(|| apply(r, op)));
            }
        }
    }
    drop(rln);
    cleanup("verify", hist);
}

/// the stateless build: no tree; verifies every message given the producer's root, and reports its key
#[cfg(feature = "stateless")]
pub fn stateless_verify(msgs: &[Value], out: &mut Vec<Value>) {
    out.push(json!({"t": "key", "cfg": CONFIG, "digest": key_digest()}));
    let r = RLN::new().unwrap();
    for m in msgs {
        let b = bytes_of(&m["bytes"]);
        let w = catch(AssertUnwindSafe(|| r.verify_with_roots(Cursor::new(b.clone()), Cursor::new(bytes_of(&m["root"])))));
        let x = catch(AssertUnwindSafe(|| r.verify_with_roots(Cursor::new(b.clone()), Cursor::new(vec![7u8; 32]))));
        out.push(json!({"t": "xverify", "cfg": CONFIG, "producer": m["cfg"], "hist": m["hist"], "k": m["k"],
                        "roots": matches!(w, Ok(Ok(true))), "stateful": matches!(w, Ok(Ok(true))),
                        "wrongroot": matches!(x, Ok(Ok(true)))}));
    }
}
