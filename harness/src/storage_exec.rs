// Executor for persistence / fault-injection scenarios (C16, C15-after-reopen, C18 reopen):
// an RLN instance on a NON-temporary sled location, with the H1 hook armed at a chosen storage
// operation. Executes and records; decides nothing.
#![cfg(all(feature = "pmtree", not(feature = "stateless")))]
use crate::intern::Interner;
use crate::rln_exec::{apply, new_rln, observe_small, observe_sparse};
use crate::util::*;
use rln::public::RLN;
use serde_json::{json, Value};
use std::collections::BTreeSet;
use std::panic::AssertUnwindSafe;
use std::time::Instant;
use zerokit_utils::pm_tree::sled_adapter::verif_fault as hook;

fn observe(r: &mut RLN, d: usize, touched: &BTreeSet<usize>, it: &mut Interner) -> Value {
    let o = catch(AssertUnwindSafe(|| if d <= 5 { observe_small(r, d, it) } else { observe_sparse(r, d, touched, it) }));
    o.unwrap_or_else(|m| json!({"broken": m}))
}

pub fn run(scenario: &[Value], dir: &str, it: &mut Interner, out: &mut Vec<Value>) {
    let mut rln: Option<RLN> = None;
    let mut d = 0usize;
    let mut touched: BTreeSet<usize> = BTreeSet::new();
    hook::disarm();
    let mut failed_live = false;
    let mut just_failed = false;
    for (k, op) in scenario.iter().enumerate() {
        let c = op["c"].as_str().unwrap();
        match c {
            "open" => {
                d = op["d"].as_u64().unwrap() as usize;
                drop(rln.take());
                failed_live = false;
                let path = format!("{}/{}", dir, op["path"].as_str().unwrap());
                let existed = std::path::Path::new(&path).exists();
                if !existed {
                    touched.clear();
                }
                if d > 5 {
                    for p in op.get("probe").and_then(|x| x.as_array()).cloned().unwrap_or_default() {
                        touched.insert(p.as_u64().unwrap() as usize);
                    }
                }
                let mut cfg = op.get("cfg").cloned().unwrap_or(json!({}));
                cfg["path"] = json!(path);
                cfg["temporary"] = json!(false);
                let (c0, f0) = (hook::count(), hook::fired());
                let t0 = Instant::now();
                let r = catch(AssertUnwindSafe(|| new_rln(d, &cfg)));
                let ms = t0.elapsed().as_millis() as u64;
                let mut ev = json!({"t": "open", "k": k, "tgt": "rln", "be": crate::BACKEND, "d": d, "path": op["path"],
                                    "existed": existed, "sops": hook::count() - c0, "fired": hook::fired() > f0, "ms": ms});
                if let Some(c) = op.get("cfg") {
                    ev["cfg"] = c.clone();
                }
                match r {
                    Ok(Ok(mut r)) => {
                        ev["res"] = json!("ok");
                        // observation must not be disturbed by a still-armed hook
                        let saved = hook::REMAINING.load(std::sync::atomic::Ordering::SeqCst);
                        hook::disarm();
                        ev["obs"] = observe(&mut r, d, &touched, it);
                        if saved >= 0 {
                            hook::REMAINING.store(saved, std::sync::atomic::Ordering::SeqCst);
                        }
                        rln = Some(r);
                    }
                    Ok(Err(e)) => {
                        ev["res"] = json!("err");
                        ev["msg"] = json!(e.to_string());
                        ev["obs"] = json!({"broken": "no instance"});
                    }
                    Err(m) => {
                        ev["res"] = json!("panic");
                        ev["msg"] = json!(m);
                        ev["obs"] = json!({"broken": "no instance"});
                    }
                }
                out.push(ev);
            }
            "arm" => {
                hook::arm(op["k"].as_i64().unwrap() - 1);
                out.push(json!({"t": "arm", "k": k, "n": op["k"]}));
            }
            "disarm" => {
                hook::disarm();
                out.push(json!({"t": "disarm", "k": k}));
            }
            "drop" => {
                drop(rln.take());
                out.push(json!({"t": "drop", "k": k}));
            }
            "crashrun" => {
                // crash point: a CHILD process runs the history on the real location with H1 in abort mode (the
                // process dies inside the K-th storage operation); this process replays the completed prefix on a
                // shadow location (to have the acknowledged state as judged events) and then reopens the real one
                drop(rln.take());
                d = op["d"].as_u64().unwrap() as usize;
                let hist: Vec<Value> = op["hist"].as_array().unwrap().clone();
                let path = format!("{}/{}", dir, op["path"].as_str().unwrap());
                let hp = format!("{path}.hist.json");
                let lp = format!("{path}.log");
                write_json(&hp, &json!(hist));
                let mut cfg = op.get("cfg").cloned().unwrap_or(json!({}));
                cfg["path"] = json!(path);
                cfg["temporary"] = json!(false);
                let exe = std::env::current_exe().unwrap();
                let st = std::process::Command::new(exe)
                    .args(["crash-child", "--d", &d.to_string(), "--cfg", &cfg.to_string(), "--k", &op["crash_at"].to_string(), "--hist", &hp, "--log", &lp,
                           "--abort-after", &op.get("abort_after").and_then(|x| x.as_u64()).unwrap_or(0).to_string()])
                    .stderr(std::process::Stdio::null())
                    .status();
                let log = std::fs::read_to_string(&lp).unwrap_or_default();
                let completed = log.lines().filter(|l| l.starts_with("done")).count();
                let opened = log.lines().any(|l| l.starts_with("opened"));
                let finished = log.lines().any(|l| l.starts_with("finished"));
                let aborted = !finished && !matches!(st, Ok(s) if s.success());
                // shadow replay of what completed
                touched.clear();
                let mut scfg = op.get("cfg").cloned().unwrap_or(json!({}));
                scfg["path"] = json!(format!("{path}.shadow"));
                scfg["temporary"] = json!(false);
                let mut ev = json!({"t": "open", "k": k, "tgt": "rln", "be": crate::BACKEND, "d": d, "path": format!("{}.shadow", op["path"].as_str().unwrap()),
                                    "existed": false, "sops": 0, "fired": false, "ms": 0});
                let mut shadow = None;
                if opened {
                    match catch(AssertUnwindSafe(|| new_rln(d, &scfg))) {
                        Ok(Ok(mut r)) => {
                            ev["res"] = json!("ok");
                            ev["obs"] = observe(&mut r, d, &touched, it);
                            shadow = Some(r);
                        }
                        _ => {
                            ev["res"] = json!("err");
                            ev["obs"] = json!({"broken": "no instance"});
                        }
                    }
                    out.push(ev);
                }
                if let Some(r) = shadow.as_mut() {
                    for h in hist.iter().take(completed) {
                        let nb = r.leaves_set();
                        crate::rln_exec::touched_by(h, nb, &mut touched, 1usize << d);
                        let res = catch(AssertUnwindSafe(|| apply(r, h)));
                        let mut ev = json!({"t": "op", "k": k, "tgt": "rln", "be": crate::BACKEND, "d": d, "op": h, "sops": 0, "fired": false});
                        ev["res"] = match res { Ok(Ok(())) => json!("ok"), Ok(Err(_)) => json!("err"), Err(_) => json!("panic") };
                        ev["obs"] = observe(r, d, &touched, it);
                        out.push(ev);
                    }
                    if completed < hist.len() {
                        // watch what the call in flight would have touched
                        let nb = r.leaves_set();
                        crate::rln_exec::touched_by(&hist[completed], nb, &mut touched, 1usize << d);
                    }
                }
                drop(shadow);
                let between = op.get("abort_after").and_then(|x| x.as_u64()).map(|n| n as usize == completed && n > 0).unwrap_or(false);
                let inflight = if !opened { json!({"c": "create"}) } else if completed < hist.len() && !between { hist[completed].clone() } else { json!({"c": "flush"}) };
                out.push(json!({"t": "crash", "k": k, "aborted": aborted, "completed": completed, "opened": opened, "inflight": inflight}));
                // reopen the real location in THIS process
                let t0 = Instant::now();
                let r = catch(AssertUnwindSafe(|| new_rln(d, &cfg)));
                let ms = t0.elapsed().as_millis() as u64;
                let mut ev = json!({"t": "open", "k": k, "tgt": "rln", "be": crate::BACKEND, "d": d, "path": op["path"], "existed": true,
                                    "sops": 0, "fired": false, "ms": ms, "after_crash": true});
                match r {
                    Ok(Ok(mut r)) => {
                        ev["res"] = json!("ok");
                        ev["obs"] = observe(&mut r, d, &touched, it);
                    }
                    Ok(Err(e)) => {
                        ev["res"] = json!("err");
                        ev["msg"] = json!(e.to_string().chars().take(200).collect::<String>());
                        ev["obs"] = json!({"broken": "no instance"});
                    }
                    Err(m) => {
                        ev["res"] = json!("panic");
                        ev["msg"] = json!(m);
                        ev["obs"] = json!({"broken": "no instance"});
                    }
                }
                out.push(ev);
            }
            _ => {
                let Some(r) = rln.as_mut() else { continue };
                // after the injected failure only flush/close are exercised on the live instance: the
                // property speaks about the report and about what a reopen finds
                let is_retry = op.get("retry").and_then(|x| x.as_bool()).unwrap_or(false);
                let retry_now = is_retry && just_failed;
                just_failed = false;
                if is_retry && !retry_now {
                    continue; // a retry line only runs right after the call that the injected failure hit
                }
                if failed_live && c != "flush" && !retry_now {
                    continue;
                }
                let nb = r.leaves_set();
                crate::rln_exec::touched_by(op, nb, &mut touched, 1usize << d);
                let (c0, f0) = (hook::count(), hook::fired());
                let res = catch(AssertUnwindSafe(|| apply(r, op)));
                let mut ev = json!({"t": "op", "k": k, "tgt": "rln", "be": crate::BACKEND, "d": d, "op": op,
                                    "sops": hook::count() - c0, "fired": hook::fired() > f0});
                if hook::fired() > f0 {
                    failed_live = true;
                    just_failed = true;
                }
                match res {
                    Ok(Ok(())) => ev["res"] = json!("ok"),
                    Ok(Err(e)) => {
                        ev["res"] = json!("err");
                        ev["msg"] = json!(e.to_string());
                    }
                    Err(m) => {
                        ev["res"] = json!("panic");
                        ev["msg"] = json!(m);
                    }
                }
                let saved = hook::REMAINING.load(std::sync::atomic::Ordering::SeqCst);
                hook::disarm();
                ev["obs"] = observe(r, d, &touched, it);
                if saved >= 0 {
                    hook::REMAINING.store(saved, std::sync::atomic::Ordering::SeqCst);
                }
                out.push(ev);
            }
        }
    }
    drop(rln.take());
    hook::disarm();
}


/// child of a crash-point run: performs the history on the real location with H1 in ABORT mode; writes one
/// progress line per completed call (flushed), so that the parent knows which call was in flight
pub fn crash_child(d: usize, cfg: &Value, k: i64, hist: &[Value], log_path: &str, abort_after: usize) {
    use std::io::Write;
    let mut log = std::fs::File::create(log_path).unwrap();
    hook::set_mode(1);
    if k > 0 {
        hook::arm(k - 1);
    }
    let mut r = match new_rln(d, cfg) {
        Ok(r) => r,
        Err(_) => {
            let _ = writeln!(log, "openfailed");
            return;
        }
    };
    let _ = writeln!(log, "opened");
    let _ = log.sync_all();
    let mut n_done = 0usize;
    for h in hist {
        let _ = catch(AssertUnwindSafe(|| apply(&mut r, h)));
        let _ = writeln!(log, "done");
        let _ = log.sync_all();
        n_done += 1;
        if abort_after > 0 && n_done == abort_after {
            std::process::abort(); // crash point BETWEEN two calls (e.g. right after a flush was acknowledged)
        }
    }
    let _ = r.flush();
    let _ = writeln!(log, "finished");
    hook::disarm();
}
