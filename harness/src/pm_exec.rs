// Node-level recorder for the persistent backend (judge: Trace_TreePm.tla = TreePm.tla's own actions + the logged
// fields).  The external crate's tree type is driven directly - pmtree::MerkleTree<SledDB, PoseidonHash>, the type the
// adapter wraps - and after every call the store itself is read: for every node position (level, index) whether a
// value is stored under its key and which, plus the stored next_index; so the judge compares the model's `db`
// (which nodes are written, not only what reads return) with the real one.  Hash facts come from a mirror of the
// ideal leaf array (only to know which facts will be asked for; a wrong mirror ends in a missing-fact assertion).
#![cfg(all(feature = "pmtree", not(feature = "stateless")))]
use crate::intern::Interner;
use crate::util::*;
use rand::{Rng, SeedableRng};
use rand_chacha::ChaCha20Rng;
use rln::circuit::Fr;
use rln::hashers::PoseidonHash;
use serde_json::{json, Value};
use std::panic::AssertUnwindSafe;
use zerokit_utils::pmtree::tree::Key;
use zerokit_utils::pmtree::{Database, Hasher, MerkleTree};
use zerokit_utils::SledDB;

type T = MerkleTree<SledDB, PoseidonHash>;

fn dump(t: &T, d: usize, it: &mut Interner) -> Value {
    let mut nodes = Vec::new();
    for l in 0..=d {
        for i in 0..(1usize << l) {
            if let Ok(Some(v)) = t.db.get(Key::new(l, i).into()) {
                let fr = <PoseidonHash as Hasher>::deserialize(v);
                nodes.push(json!([l, i, it.id(&fr)]));
            }
        }
    }
    // what an observer reads at every node position (the stored value, or the default of the level when nothing is stored)
    let mut reads = Vec::new();
    for l in 0..=d {
        let row: Vec<i64> = (0..(1usize << l)).map(|i| t.get_elem(Key::new(l, i)).map(|v| it.id(&v) as i64).unwrap_or(-1)).collect();
        reads.push(row);
    }
    let nk = t.db.get(u64::MAX.to_be_bytes()).ok().flatten().map(|b| {
        let mut a = [0u8; 8];
        a.copy_from_slice(&b[..8]);
        usize::from_be_bytes(a) as i64
    }).unwrap_or(-1);
    json!({"nodes": nodes, "reads": reads, "dbnext": nk, "next": t.leaves_set(), "root": it.id(&t.root())})
}

fn facts(leaves: &[Fr], it: &mut Interner) {
    // every inner node of the ideal tree over `leaves`, and the default subtree hashes
    let mut level: Vec<Fr> = leaves.to_vec();
    let mut z = Fr::from(0u64);
    while level.len() > 1 {
        z = it.hash2(&z, &z);
        level = level.chunks(2).map(|c| it.hash2(&c[0], &c[1])).collect();
    }
}

/// zkexec pmnodes --seed N --depth D --count C --len L --out F --table T
pub fn run(seed: u64, depth: usize, count: usize, len: usize, out: &mut Vec<Value>, it: &mut Interner) {
    let mut r = ChaCha20Rng::seed_from_u64(seed ^ (depth as u64) << 32);
    let cap = 1usize << depth;
    for sc in 0..count {
        let dir = std::env::temp_dir().join(format!("zk-pmnodes-{}-{}-{}", std::process::id(), depth, sc));
        let _ = std::fs::remove_dir_all(&dir);
        // storage configurations in rotation: default, LowSpace with a tiny cache and a 1 ms flush period, small cache
        let cfg = || match sc % 3 {
            1 => zerokit_utils::Config::new().path(&dir).mode(zerokit_utils::Mode::LowSpace).cache_capacity(10_000).flush_every_ms(Some(1)),
            2 => zerokit_utils::Config::new().path(&dir).cache_capacity(100_000),
            _ => zerokit_utils::Config::new().path(&dir),
        };
        let mut slot: Option<T> = match T::new(depth, cfg()) {
            Ok(t) => Some(t),
            Err(e) => {
                out.push(json!({"op": "new", "depth": depth, "res": "err", "msg": e.to_string()}));
                continue;
            }
        };
        let mut mirror = vec![Fr::from(0u64); cap];
        facts(&mirror, it);
        let mut ev = dump(slot.as_ref().unwrap(), depth, it);
        ev["op"] = json!("new");
        ev["depth"] = json!(depth);
        ev["res"] = json!("ok");
        out.push(ev);
        for _ in 0..len {
            let mut t = slot.take().unwrap();
            let val = |r: &mut ChaCha20Rng| -> u64 { if r.gen_range(0..4) == 0 { 0 } else { r.gen_range(1..6) } };
            let pos = |r: &mut ChaCha20Rng| -> usize { match r.gen_range(0..10) { 0 => cap, 1 => cap - 1, 2 => 0, _ => r.gen_range(0..cap) } };
            let k = r.gen_range(0..100);
            let (mut ev, res): (Value, Result<Result<(), String>, String>);
            if k < 25 {
                let (i, v) = (pos(&mut r), val(&mut r));
                ev = json!({"op": "set", "i": i, "v": v});
                res = catch(AssertUnwindSafe(|| t.set(i, Fr::from(v)).map_err(|e| e.to_string())));
                if matches!(res, Ok(Ok(()))) { mirror[i] = Fr::from(v); }
            } else if k < 40 {
                let i = pos(&mut r);
                ev = json!({"op": "delete", "i": i});
                res = catch(AssertUnwindSafe(|| t.delete(i).map_err(|e| e.to_string())));
                if matches!(res, Ok(Ok(()))) { mirror[i] = Fr::from(0u64); }
            } else if k < 55 {
                let v = val(&mut r);
                let at = t.leaves_set();
                ev = json!({"op": "append", "v": v});
                res = catch(AssertUnwindSafe(|| t.update_next(Fr::from(v)).map_err(|e| e.to_string())));
                if matches!(res, Ok(Ok(()))) { mirror[at] = Fr::from(v); }
            } else if k < 90 {
                let st = pos(&mut r);
                let room = cap.saturating_sub(st);
                let n = match r.gen_range(0..8) { 0 => room + 1, 1 => room.max(1), _ => r.gen_range(1..=room.max(1)) };
                let vs: Vec<u64> = (0..n).map(|_| val(&mut r)).collect();
                ev = json!({"op": "range", "s": st, "vs": vs});
                let frs: Vec<Fr> = vs.iter().map(|v| Fr::from(*v)).collect();
                res = catch(AssertUnwindSafe(|| t.set_range(st, frs).map_err(|e| e.to_string())));
                if matches!(res, Ok(Ok(()))) { for (j, v) in vs.iter().enumerate() { mirror[st + j] = Fr::from(*v); } }
            } else {
                ev = json!({"op": "reload"});
                let _ = t.close();
                drop(t);                       // the old instance must be gone before the location is opened again
                let mut got = None;
                for _ in 0..200 {
                    match T::load(cfg()) {
                        Ok(x) => { got = Some(x); break; }
                        Err(_) => std::thread::sleep(std::time::Duration::from_millis(10)),
                    }
                }
                match got {
                    Some(x) => { t = x; res = Ok(Ok(())); }
                    None => { out.push(json!({"op": "reload", "res": "err"})); break; }
                }
            }
            facts(&mirror, it);
            let d = dump(&t, depth, it);
            for (k2, v2) in d.as_object().unwrap() { ev[k2] = v2.clone(); }
            ev["res"] = json!(match &res { Ok(Ok(())) => "ok", Ok(Err(_)) => "err", Err(_) => "panic" });
            out.push(ev);
            slot = Some(t);
        }
        drop(slot);
        let _ = std::fs::remove_dir_all(&dir);
    }
}
