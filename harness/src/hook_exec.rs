// zkexec hookfacts --in DIR --out PREFIX
// Prepares the call traces written by hook H2 (utils/src/verif_trace.rs, one file per process) for the TLA+ judge
// Trace_Hook.tla: values become small integers (interned by exact text, the default leaf is 0), and the table of
// hash facts the judge needs to fold the ideal root is computed here with the library's own hash on actual values.
// Nothing is decided here. To know WHICH facts the judge will ask for, the ideal leaf map is mirrored (set / delete /
// append / range / batch as in TreeOps.tla); if this mirror were wrong the judge would stop with a missing-fact
// assertion (tool error), never with a verdict.
use crate::util::*;
use rln::circuit::Fr;
use rln::hashers::poseidon_hash;
use serde_json::{json, Value};
use std::collections::{BTreeMap, HashMap};
use std::str::FromStr;
use tiny_keccak::{Hasher as _, Keccak};

#[derive(Clone, Copy, PartialEq)]
enum Kind {
    Poseidon,
    Keccak,
    Unknown,
}

struct Class {
    kind: Kind,
    ids: HashMap<String, u32>,
    vals: Vec<String>,
    h2: BTreeMap<(u32, u32), u32>,
    out: Vec<Value>,
    computed: usize,
}

impl Class {
    fn new(kind: Kind) -> Self {
        let mut c = Class { kind, ids: HashMap::new(), vals: Vec::new(), h2: BTreeMap::new(), out: Vec::new(), computed: 0 };
        match kind {
            Kind::Poseidon => {
                for v in 0..16u32 {
                    c.id(&v.to_string());
                }
            }
            Kind::Keccak => {
                c.id(&"0".repeat(64));
            }
            Kind::Unknown => {}
        }
        c
    }
    fn id(&mut self, s: &str) -> u32 {
        if let Some(i) = self.ids.get(s) {
            return *i;
        }
        let i = self.vals.len() as u32;
        self.ids.insert(s.to_string(), i);
        self.vals.push(s.to_string());
        i
    }
    /// the value of an event field, the instance's default leaf being 0
    fn vid(&mut self, s: &str, z: &str) -> i64 {
        if self.kind == Kind::Unknown {
            if s == z {
                return 0;
            }
            return self.id(s) as i64 + 1;
        }
        self.id(s) as i64
    }
    fn hash2(&mut self, a: u32, b: u32) -> Option<u32> {
        if let Some(c) = self.h2.get(&(a, b)) {
            return Some(*c);
        }
        let c = match self.kind {
            Kind::Poseidon => {
                let x = Fr::from_str(&self.vals[a as usize]).ok()?;
                let y = Fr::from_str(&self.vals[b as usize]).ok()?;
                poseidon_hash(&[x, y]).to_string()
            }
            Kind::Keccak => {
                let x = unhex(&self.vals[a as usize])?;
                let y = unhex(&self.vals[b as usize])?;
                let mut k = Keccak::v256();
                k.update(&x);
                k.update(&y);
                let mut o = [0u8; 32];
                k.finalize(&mut o);
                o.iter().map(|b| format!("{:02x}", b)).collect::<String>()
            }
            Kind::Unknown => return None,
        };
        self.computed += 1;
        let ic = self.id(&c);
        self.h2.insert((a, b), ic);
        Some(ic)
    }
    fn tables(&self) -> Value {
        let n = self.vals.len();
        let mut rows: Vec<Vec<[u32; 2]>> = vec![Vec::new(); n.max(1)];
        for ((a, b), c) in &self.h2 {
            rows[*a as usize].push([*b, *c]);
        }
        json!({"n": n, "H2": rows})
    }
}

fn unhex(s: &str) -> Option<Vec<u8>> {
    if s.len() % 2 != 0 {
        return None;
    }
    (0..s.len() / 2).map(|i| u8::from_str_radix(&s[2 * i..2 * i + 2], 16).ok()).collect()
}

struct Inst {
    small: u64,
    d: usize,
    z: String,
    lv: BTreeMap<usize, u32>,
    next: usize,
    zs: Vec<u32>,
    mirror: bool,
    hk: bool,
}

fn node(c: &mut Class, inst: &Inst, keys: &[(usize, u32)], lev: usize, idx: usize) -> Option<u32> {
    if keys.is_empty() {
        return Some(inst.zs[lev]);
    }
    if lev == inst.d {
        return Some(keys[0].1);
    }
    // keys are sorted: split at the boundary of the right child
    let mid = ((2 * idx + 1) as u128) << (inst.d - lev - 1);
    let cut = keys.partition_point(|(k, _)| (*k as u128) < mid);
    let l = node(c, inst, &keys[..cut], lev + 1, 2 * idx)?;
    let r = node(c, inst, &keys[cut..], lev + 1, 2 * idx + 1)?;
    c.hash2(l, r)
}

fn us(v: &Value) -> usize {
    v.as_u64().unwrap_or(0) as usize
}

pub fn run(dir: &str, prefix: &str) {
    let mut files: Vec<_> = std::fs::read_dir(dir)
        .expect("trace directory")
        .filter_map(|e| e.ok())
        .map(|e| e.path())
        .filter(|p| p.file_name().map(|n| n.to_string_lossy().starts_with("tree-") && n.to_string_lossy().ends_with(".ndjson")).unwrap_or(false))
        .collect();
    files.sort();
    let mut classes: BTreeMap<&'static str, Class> = BTreeMap::new();
    let mut stats = json!({"files": files.len(), "events": 0, "skipped_lines": 0});
    let mut small_next = 1u64;
    for f in &files {
        let text = std::fs::read_to_string(f).unwrap_or_default();
        let mut evs: Vec<Value> = Vec::new();
        for line in text.lines() {
            match serde_json::from_str::<Value>(line) {
                Ok(v) => evs.push(v),
                Err(_) => stats["skipped_lines"] = json!(stats["skipped_lines"].as_u64().unwrap() + 1), // a process killed inside a write
            }
        }
        evs.sort_by_key(|e| e["seq"].as_u64().unwrap_or(0));
        let mut live: HashMap<u64, (Inst, &'static str)> = HashMap::new();
        for e in evs {
            stats["events"] = json!(stats["events"].as_u64().unwrap() + 1);
            let ev = e["ev"].as_str().unwrap_or("").to_string();
            let addr = e["inst"].as_u64().unwrap_or(0);
            if ev == "drop" {
                if let Some((inst, cn)) = live.remove(&addr) {
                    classes.get_mut(cn).unwrap().out.push(json!({"ev": "drop", "inst": inst.small}));
                }
                continue;
            }
            let res = e["res"].as_str().unwrap_or("panic").to_string();
            if ev == "new" {
                if res != "ok" {
                    continue;
                }
                let h = e["h"].as_str().unwrap_or("");
                let (cn, kind): (&'static str, Kind) = if h.ends_with("PoseidonHash") {
                    ("poseidon", Kind::Poseidon)
                } else if h.ends_with("Keccak256") {
                    ("keccak", Kind::Keccak)
                } else {
                    ("other", Kind::Unknown)
                };
                classes.entry(cn).or_insert_with(|| Class::new(kind));
                if let Some((old, ocn)) = live.remove(&addr) {
                    // an address reused without a drop event (cannot happen with the hook as written): forget the old one
                    classes.get_mut(ocn).unwrap().out.push(json!({"ev": "drop", "inst": old.small}));
                }
                let c = classes.get_mut(cn).unwrap();
                let d = us(&e["d"]);
                let z = e["z"].as_str().unwrap_or("").to_string();
                let mut inst = Inst { small: small_next, d, z: z.clone(), lv: BTreeMap::new(), next: 0, zs: vec![0; d + 1], mirror: true, hk: kind != Kind::Unknown };
                small_next += 1;
                let zid = c.vid(&z, &z) as u32;
                if inst.hk {
                    inst.zs[d] = zid;
                    for lev in (0..d).rev() {
                        match c.hash2(inst.zs[lev + 1], inst.zs[lev + 1]) {
                            Some(x) => inst.zs[lev] = x,
                            None => {
                                inst.hk = false;
                                break;
                            }
                        }
                    }
                }
                let root = c.vid(e["root"].as_str().unwrap_or(""), &z);
                if kind == Kind::Keccak && inst.hk && us(&e["next"]) == 0 && root != inst.zs[0] as i64 {
                    inst.hk = false; // not the hasher assumed here: the roots of this instance are not judged
                }
                if kind == Kind::Keccak && zid != 0 {
                    inst.hk = false;
                }
                let init0 = e["init"].as_str() == Some(z.as_str());
                c.out.push(json!({"ev": "new", "inst": inst.small, "be": e["be"], "hk": if inst.hk { 1 } else { 0 }, "d": d, "res": "ok",
                                  "root": root, "next": e["next"], "init0": if init0 { 1 } else { 0 },
                                  "zs": inst.zs.iter().map(|x| *x as i64).collect::<Vec<_>>(), "src": f.file_name().unwrap().to_string_lossy(), "seq": e["seq"]}));
                if !(init0 && us(&e["next"]) == 0) {
                    inst.mirror = false;
                }
                live.insert(addr, (inst, cn));
                continue;
            }
            let Some((inst, cn)) = live.get_mut(&addr) else { continue };
            let c = classes.get_mut(*cn).unwrap();
            let z = inst.z.clone();
            let cap: u128 = 1u128 << inst.d;
            let mut op = json!({"c": ev});
            let mut vs: Vec<u32> = Vec::new();
            let mut rem: Vec<usize> = Vec::new();
            match ev.as_str() {
                "set" => {
                    op["i"] = e["i"].clone();
                    op["v"] = json!(c.vid(e["v"].as_str().unwrap_or(""), &z));
                }
                "delete" => op["i"] = e["i"].clone(),
                "append" => op["v"] = json!(c.vid(e["v"].as_str().unwrap_or(""), &z)),
                "range" | "override" => {
                    op["s"] = e["s"].clone();
                    for v in e["vs"].as_array().cloned().unwrap_or_default() {
                        vs.push(c.vid(v.as_str().unwrap_or(""), &z) as u32);
                    }
                    op["vs"] = json!(vs);
                    if ev == "override" {
                        rem = e["rem"].as_array().cloned().unwrap_or_default().iter().map(us).collect();
                        op["rem"] = json!(rem);
                    }
                }
                "proof" => {
                    // a read-only query: no effect on the mirror; the siblings are nodes of the root computation
                    let mut o = json!({"ev": "proof", "inst": inst.small, "be": e["be"], "hk": if inst.hk { 1 } else { 0 }, "res": res,
                                       "op": {"c": "proof", "i": e["i"]}, "seq": e["seq"]});
                    if res == "ok" {
                        o["len"] = e["len"].clone();
                        o["idx"] = e["idx"].clone();
                        o["bits"] = e["bits"].clone();
                        o["sib"] = json!(e["sib"].as_array().cloned().unwrap_or_default().iter().map(|v| c.vid(v.as_str().unwrap_or(""), &z)).collect::<Vec<_>>());
                    }
                    if e.get("post").is_none() && res != "panic" {
                        o["root"] = json!(c.vid(e["root"].as_str().unwrap_or(""), &z));
                        o["next"] = e["next"].clone();
                        o["d"] = e["d"].clone();
                    } else {
                        o["nopost"] = json!(1);
                    }
                    c.out.push(o);
                    continue;
                }
                _ => continue,
            }
            // ---- mirror of the ideal leaf map (only to know which hash facts will be asked for)
            if inst.mirror && res == "ok" {
                let put = |lv: &mut BTreeMap<usize, u32>, i: usize, v: u32| {
                    if v == 0 {
                        lv.remove(&i);
                    } else {
                        lv.insert(i, v);
                    }
                };
                match ev.as_str() {
                    "set" => {
                        let i = us(&e["i"]);
                        if (i as u128) < cap {
                            put(&mut inst.lv, i, op["v"].as_u64().unwrap() as u32);
                            inst.next = inst.next.max(i + 1);
                        } else {
                            inst.mirror = false;
                        }
                    }
                    "delete" => {
                        let i = us(&e["i"]);
                        if i < inst.next {
                            inst.lv.remove(&i);
                        }
                    }
                    "append" => {
                        if (inst.next as u128) < cap {
                            let i = inst.next;
                            put(&mut inst.lv, i, op["v"].as_u64().unwrap() as u32);
                            inst.next = i + 1;
                        } else {
                            inst.mirror = false;
                        }
                    }
                    "range" | "override" => {
                        let s = us(&e["s"]);
                        if (s as u128) + (vs.len() as u128) <= cap {
                            for r in &rem {
                                if (*r as u128) < cap {
                                    inst.lv.remove(r);
                                }
                            }
                            for (k, v) in vs.iter().enumerate() {
                                put(&mut inst.lv, s + k, *v);
                            }
                            if !vs.is_empty() {
                                inst.next = inst.next.max(s + vs.len());
                            }
                        } else {
                            inst.mirror = false;
                        }
                    }
                    _ => {}
                }
            }
            if res == "panic" {
                inst.mirror = false;
            }
            if inst.mirror && inst.hk {
                let keys: Vec<(usize, u32)> = inst.lv.iter().map(|(k, v)| (*k, *v)).collect();
                let _ = node(c, inst, &keys, 0, 0);
            }
            let mut o = json!({"ev": ev, "inst": inst.small, "be": e["be"], "hk": if inst.hk { 1 } else { 0 }, "res": res, "op": op, "seq": e["seq"]});
            if res != "panic" && e.get("post").is_none() {
                o["root"] = json!(c.vid(e["root"].as_str().unwrap_or(""), &z));
                o["next"] = e["next"].clone();
                o["d"] = e["d"].clone();
                let rb: Vec<Value> = e["rb"].as_array().cloned().unwrap_or_default().iter()
                    .map(|p| { let s = p[1].as_str().unwrap_or("!"); json!([p[0], if s == "!" { -1 } else { c.vid(s, &z) }]) }).collect();
                o["rb"] = json!(rb);
                for kk in ["empties_n", "empties_head", "empties_tail"] {
                    if let Some(em) = e.get(kk) {
                        o[kk] = em.clone();
                    }
                }
                if let Some(em) = e.get("empties") {
                    o["empties"] = em.clone();
                }
            } else {
                o["nopost"] = json!(1);
            }
            c.out.push(o);
        }
        for (_, (inst, cn)) in live.drain() {
            classes.get_mut(cn).unwrap().out.push(json!({"ev": "drop", "inst": inst.small}));
        }
    }
    let mut names = Vec::new();
    for (cn, c) in &classes {
        write_ndjson(&format!("{prefix}-{cn}.trace.ndjson"), &c.out);
        write_json(&format!("{prefix}-{cn}.tab.json"), &c.tables());
        names.push(json!({"class": cn, "events": c.out.len(), "values": c.vals.len(), "hash_facts": c.h2.len()}));
    }
    stats["classes"] = json!(names);
    write_json(&format!("{prefix}.stats.json"), &stats);
}

// ---- zkexec hookreplay --events FILE : the raw hook lines of one instance (its "new" line first) are
// re-executed at the trait level on a fresh tree of the same backend; with ZEROKIT_VERIF_TRACE set the hook
// records the new execution, which is then judged like any other hook trace.
use zerokit_utils::ZerokitMerkleTree;

fn replay_on<T>(mut t: T, evs: &[Value])
where
    T: ZerokitMerkleTree<Hasher = rln::hashers::PoseidonHash>,
{
    let fr = |v: &Value| Fr::from_str(v.as_str().unwrap_or("0")).unwrap_or_default();
    for e in evs {
        let r = catch(std::panic::AssertUnwindSafe(|| match e["ev"].as_str().unwrap_or("") {
            "set" => t.set(us(&e["i"]), fr(&e["v"])).is_ok(),
            "delete" => t.delete(us(&e["i"])).is_ok(),
            "append" => t.update_next(fr(&e["v"])).is_ok(),
            "range" => t.set_range(us(&e["s"]), e["vs"].as_array().cloned().unwrap_or_default().iter().map(fr).collect::<Vec<_>>().into_iter()).is_ok(),
            "override" => t
                .override_range(
                    us(&e["s"]),
                    e["vs"].as_array().cloned().unwrap_or_default().iter().map(fr).collect::<Vec<_>>().into_iter(),
                    e["rem"].as_array().cloned().unwrap_or_default().iter().map(us).collect::<Vec<_>>().into_iter(),
                )
                .is_ok(),
            _ => true,
        }));
        if r.is_err() {
            break;
        }
    }
}

pub fn replay(path: &str) {
    let evs = read_ndjson(path);
    let Some(first) = evs.first() else { return };
    let d = us(&first["d"]);
    match first["be"].as_str().unwrap_or("") {
        "full" => replay_on(crate::tree_exec::mk_full(d), &evs[1..]),
        "optimal" => replay_on(crate::tree_exec::mk_optimal(d), &evs[1..]),
        #[cfg(feature = "pmtree")]
        "pm" => replay_on(crate::tree_exec::mk_pm(d), &evs[1..]),
        x => {
            eprintln!("backend {x} is not available in this build");
            std::process::exit(2);
        }
    }
}
